import Mathlib.Analysis.SpecialFunctions.Log.Base
import Mathlib.Algebra.BigOperators.Ring.Finset
import Mathlib.Algebra.Order.BigOperators.Group.Finset
import Mathlib.Algebra.BigOperators.Group.Finset.Basic
import Mathlib.Data.List.Count
import Mathlib.Data.List.Nodup
import Mathlib.Tactic.Ring
import Mathlib.Tactic.Linarith
import Mathlib.Tactic.Positivity
import Mathlib.Tactic.FieldSimp
import Cpl.Model.Measures

/-!
# Helper lemmas for C16 (entropy measures over the reals)

* `realNum : Num ℝ` — the instantiation of the model's arithmetic record with the real numbers;
* exact (combinatorial) facts about `distinctSyms`, `symCounts`, `jointCounts`;
* closed forms of `shannon realNum`, `jointShannon realNum` as finite sums;
* Gibbs' inequality for a finite joint table (`gibbs_log`, `gibbs_logb`).
-/

namespace Cpl.Entropy
open Cpl Finset

/-- The model's arithmetic record instantiated with the real numbers (`ln = Real.log`). -/
noncomputable def realNum : Num ℝ :=
  ⟨fun n => (n : ℝ), (· + ·), (· - ·), (· * ·), (· / ·), (- ·), (|·|), Real.log⟩

/-! ## `Num.sum`, `Num.mean`, `Num.log2` over the reals -/

theorem realNum_sum (l : List ℝ) : realNum.sum l = l.sum := by
  unfold Num.sum
  rw [List.sum_eq_foldl]
  simp [realNum]

theorem realNum_log2 (x : ℝ) : realNum.log2 x = Real.logb 2 x := by
  simp [Num.log2, realNum, Real.logb]

theorem realNum_mean (l : List ℝ) : realNum.mean l = l.sum / l.length := by
  unfold Num.mean
  rw [realNum_sum]
  simp [realNum]

/-- Sum of a list `map` over a duplicate-free list as a `Finset` sum. -/
theorem sum_map_nodup {α : Type} [DecidableEq α] (l : List α) (hl : l.Nodup) (f : α → ℝ) :
    (l.map f).sum = ∑ a ∈ l.toFinset, f a := (List.sum_toFinset f hl).symm

theorem sum_map_range (n : Nat) (f : Nat → ℝ) :
    ((List.range n).map f).sum = ∑ i ∈ Finset.range n, f i := by
  rw [sum_map_nodup _ List.nodup_range, List.toFinset_range]

/-! ## `distinctSyms`, `symCounts` -/

theorem mem_distinctSyms {xs : List Int} {s : Int} : s ∈ distinctSyms xs ↔ s ∈ xs := by
  induction xs with
  | nil => simp [distinctSyms]
  | cons x xs ih =>
    simp only [distinctSyms, List.mem_cons, List.mem_filter, ih, bne_iff_ne, ne_eq]
    by_cases h : s = x <;> simp [h]

theorem distinctSyms_nodup (xs : List Int) : (distinctSyms xs).Nodup := by
  induction xs with
  | nil => simp [distinctSyms]
  | cons x xs ih =>
    simp only [distinctSyms, List.nodup_cons, List.mem_filter, bne_self_eq_false, and_false,
      not_false_eq_true, true_and, Bool.false_eq_true]
    exact ih.filter _

theorem distinctSyms_toFinset (xs : List Int) : (distinctSyms xs).toFinset = xs.toFinset := by
  ext s; simp [mem_distinctSyms]

theorem mem_symCounts {xs : List Int} {p : Int × Nat} :
    p ∈ symCounts xs ↔ p.1 ∈ xs ∧ p.2 = xs.count p.1 := by
  obtain ⟨s, c⟩ := p
  simp only [symCounts, List.mem_map, Prod.mk.injEq, mem_distinctSyms]
  constructor
  · rintro ⟨a, ha, rfl, rfl⟩; exact ⟨ha, rfl⟩
  · rintro ⟨hs, rfl⟩; exact ⟨s, hs, rfl, rfl⟩

theorem symCounts_keys (xs : List Int) : (symCounts xs).map (·.1) = distinctSyms xs := by
  simp [symCounts, Function.comp_def]

theorem symCounts_sum (xs : List Int) : ((symCounts xs).map (·.2)).sum = xs.length := by
  have h : (symCounts xs).map (·.2) = (distinctSyms xs).map fun s => xs.count s := by
    simp [symCounts, Function.comp_def]
  rw [h, ← List.sum_toFinset _ (distinctSyms_nodup xs), distinctSyms_toFinset]
  exact List.sum_toFinset_count_eq_length xs

/-! ## `jointCounts` -/

/-- The per-pair step of `jointCounts`. -/
def jstep (pairs : List (Int × Int)) (p : Int × Int) : Option ((Int × Int) × Nat) :=
  if pairs.count p = 0 then none else some (p, pairs.count p)

/-- `jointCounts` is a `filterMap` over the product list of the two alphabets. -/
theorem jointCounts_eq (xs ys : List Int) :
    jointCounts xs ys =
      ((distinctSyms xs).flatMap fun x => (distinctSyms ys).map fun y => (x, y)).filterMap
        (jstep (xs.zip ys)) := by
  unfold jointCounts
  rw [List.filterMap_flatMap]
  simp only [List.filterMap_map]
  rfl

theorem product_nodup (xs ys : List Int) :
    ((distinctSyms xs).flatMap fun x => (distinctSyms ys).map fun y => (x, y)).Nodup := by
  have := (distinctSyms_nodup xs).product (distinctSyms_nodup ys)
  simpa [List.product, List.instSProd, SProd.sprod] using this

theorem mem_product {xs ys : List Int} {p : Int × Int} :
    p ∈ ((distinctSyms xs).flatMap fun x => (distinctSyms ys).map fun y => (x, y)) ↔
      p.1 ∈ xs ∧ p.2 ∈ ys := by
  obtain ⟨a, b⟩ := p
  simp only [List.mem_flatMap, List.mem_map, Prod.mk.injEq, mem_distinctSyms]
  constructor
  · rintro ⟨x, hx, y, hy, rfl, rfl⟩; exact ⟨hx, hy⟩
  · rintro ⟨hx, hy⟩; exact ⟨a, hx, b, hy, rfl, rfl⟩

theorem mem_jointCounts {xs ys : List Int} {e : (Int × Int) × Nat} :
    e ∈ jointCounts xs ys ↔ e.1 ∈ xs.zip ys ∧ e.2 = (xs.zip ys).count e.1 := by
  obtain ⟨p, c⟩ := e
  rw [jointCounts_eq, List.mem_filterMap]
  constructor
  · rintro ⟨q, _, hq⟩
    unfold jstep at hq
    split at hq
    · cases hq
    · rename_i hc
      simp only [Option.some.injEq, Prod.mk.injEq] at hq
      obtain ⟨rfl, rfl⟩ := hq
      exact ⟨List.count_pos_iff.mp (Nat.pos_of_ne_zero hc), rfl⟩
  · rintro ⟨hp, hc⟩
    simp only at hp hc
    refine ⟨p, ?_, ?_⟩
    · rw [mem_product]
      obtain ⟨a, b⟩ := p
      exact List.of_mem_zip hp
    · have : (xs.zip ys).count p ≠ 0 := Nat.ne_of_gt (List.count_pos_iff.mpr hp)
      simp [jstep, this, hc]

theorem jointCounts_keys_nodup (xs ys : List Int) : ((jointCounts xs ys).map (·.1)).Nodup := by
  rw [jointCounts_eq, List.map_filterMap]
  refine List.Nodup.filterMap ?_ (product_nodup xs ys)
  intro a a' b hb hb'
  unfold jstep at hb hb'
  split at hb
  · simp at hb
  · split at hb'
    · simp at hb'
    · simp only [Option.map_some, Option.mem_def, Option.some.injEq] at hb hb'
      rw [hb, hb']

theorem jointCounts_nodup (xs ys : List Int) : (jointCounts xs ys).Nodup :=
  List.Nodup.of_map _ (jointCounts_keys_nodup xs ys)

theorem sum_filterMap {α β : Type} (l : List α) (g : α → Option β) (h : β → Nat) :
    ((l.filterMap g).map h).sum = (l.map fun a => (g a).elim 0 h).sum := by
  induction l with
  | nil => simp
  | cons a l ih =>
    rw [List.filterMap_cons]
    cases hg : g a <;> simp [hg, ih]

theorem sum_filterMap_real {α β : Type} (l : List α) (g : α → Option β) (h : β → ℝ) :
    ((l.filterMap g).map h).sum = (l.map fun a => (g a).elim 0 h).sum := by
  induction l with
  | nil => simp
  | cons a l ih =>
    rw [List.filterMap_cons]
    cases hg : g a <;> simp [hg, ih]


theorem product_toFinset (xs ys : List Int) :
    ((distinctSyms xs).flatMap fun x => (distinctSyms ys).map fun y => (x, y)).toFinset =
      xs.toFinset ×ˢ ys.toFinset := by
  ext p
  rw [List.mem_toFinset, mem_product, Finset.mem_product, List.mem_toFinset, List.mem_toFinset]

theorem zip_toFinset_subset (xs ys : List Int) :
    (xs.zip ys).toFinset ⊆ xs.toFinset ×ˢ ys.toFinset := by
  intro p hp
  obtain ⟨a, b⟩ := p
  rw [List.mem_toFinset] at hp
  have := List.of_mem_zip hp
  simp [this.1, this.2]

/-- `List.count` does not depend on which lawful `BEq` instance is used (the model's pairs use the
    component-wise `instBEqProd`, Mathlib's counting lemmas the one derived from `DecidableEq`). -/
theorem count_inst {α : Type} [DecidableEq α] [i : BEq α] [LawfulBEq α] (a : α) (l : List α) :
    @List.count α i a l = @List.count α instBEqOfDecidableEq a l := by
  induction l with
  | nil => rfl
  | cons b l ih =>
    rw [@List.count_cons α i, @List.count_cons α instBEqOfDecidableEq, ih]
    congr 1
    by_cases h : b = a
    · subst h
      rw [@beq_self_eq_true α i, @beq_self_eq_true α instBEqOfDecidableEq]
    · rw [(@beq_eq_false_iff_ne α i _).mpr h, (@beq_eq_false_iff_ne α instBEqOfDecidableEq _).mpr h]

theorem sum_toFinset_count {α : Type} [DecidableEq α] [BEq α] [LawfulBEq α] (l : List α) :
    ∑ a ∈ l.toFinset, l.count a = l.length := by
  simp only [count_inst]
  exact List.sum_toFinset_count_eq_length l

theorem jointCounts_sum (xs ys : List Int) :
    ((jointCounts xs ys).map (·.2)).sum = min xs.length ys.length := by
  rw [jointCounts_eq, sum_filterMap]
  have h : (fun a => (jstep (xs.zip ys) a).elim 0 (·.2)) = fun a => (xs.zip ys).count a := by
    funext a
    unfold jstep
    split
    · rename_i h; simp [h]
    · simp
  rw [h, ← List.sum_toFinset _ (product_nodup xs ys), product_toFinset,
    ← Finset.sum_subset (zip_toFinset_subset xs ys), sum_toFinset_count,
    List.length_zip]
  intro p _ hp
  rw [List.mem_toFinset] at hp
  exact List.count_eq_zero_of_not_mem hp

/-! ## counting lemmas for aligned pairs -/

theorem count_zip_swap (xs ys : List Int) (x y : Int) :
    (xs.zip ys).count (x, y) = (ys.zip xs).count (y, x) := by
  rw [← List.zip_swap xs ys]
  exact (List.count_map_of_injective (xs.zip ys) Prod.swap Prod.swap_injective (x, y)).symm

theorem sum_count_fst {α β : Type} [DecidableEq α] [DecidableEq β] (l : List (α × β))
    (T : Finset β) (hT : ∀ p ∈ l, p.2 ∈ T) (x : α) :
    ∑ y ∈ T, l.count (x, y) = (l.map Prod.fst).count x := by
  induction l with
  | nil => simp
  | cons q l ih =>
    obtain ⟨a, b⟩ := q
    have hb : b ∈ T := hT (a, b) (List.mem_cons_self ..)
    have ih' := ih fun p hp => hT p (List.mem_cons_of_mem _ hp)
    simp only [List.count_cons, List.map_cons, Finset.sum_add_distrib, ih']
    congr 1
    by_cases hax : a = x
    · subst hax
      simp [hb]
    · have : ∀ y, ((a, b) == (x, y)) = false := by
        intro y; simp [hax]
      simp [this, hax]

/-- Marginal of the joint counts over the second symbol: for `|xs| ≤ |ys|`. -/
theorem marginal_fst (xs ys : List Int) (h : xs.length ≤ ys.length) (x : Int) :
    ∑ y ∈ ys.toFinset, (xs.zip ys).count (x, y) = xs.count x := by
  rw [sum_count_fst (xs.zip ys) ys.toFinset ?_ x, List.map_fst_zip h]
  intro p hp
  obtain ⟨a, b⟩ := p
  exact List.mem_toFinset.mpr (List.of_mem_zip hp).2

/-- Marginal of the joint counts over the first symbol: for `|ys| ≤ |xs|`. -/
theorem marginal_snd (xs ys : List Int) (h : ys.length ≤ xs.length) (y : Int) :
    ∑ x ∈ xs.toFinset, (xs.zip ys).count (x, y) = ys.count y := by
  simp only [count_zip_swap xs ys]
  exact marginal_fst ys xs h y

theorem count_zip_self (xs : List Int) (x y : Int) :
    (xs.zip xs).count (x, y) = if x = y then xs.count x else 0 := by
  induction xs with
  | nil => simp
  | cons a xs ih =>
    simp only [List.zip_cons_cons, List.count_cons, ih]
    by_cases hxy : x = y
    · subst hxy
      by_cases hax : a = x <;> simp [hax]
    · have : ((a, a) == (x, y)) = false := by
        simp only [beq_eq_false_iff_ne, ne_eq, Prod.mk.injEq, not_and]
        rintro rfl; exact hxy
      simp [hxy, this]

/-! ## closed forms over the reals -/

@[simp] theorem realNum_ofNat (n : Nat) : realNum.ofNat n = (n : ℝ) := rfl
@[simp] theorem realNum_add (a b : ℝ) : realNum.add a b = a + b := rfl
@[simp] theorem realNum_sub (a b : ℝ) : realNum.sub a b = a - b := rfl
@[simp] theorem realNum_mul (a b : ℝ) : realNum.mul a b = a * b := rfl
@[simp] theorem realNum_div (a b : ℝ) : realNum.div a b = a / b := rfl
@[simp] theorem realNum_neg (a : ℝ) : realNum.neg a = -a := rfl

/-- `shannon` over the reals: minus the sum of `p log2 p` over the distinct symbols. -/
theorem shannon_eq (xs : List Int) :
    shannon realNum xs =
      -∑ s ∈ xs.toFinset, ((xs.count s : ℝ) / xs.length) * Real.logb 2 ((xs.count s : ℝ) / xs.length) := by
  unfold shannon
  simp only [realNum_sum, realNum_log2, realNum_ofNat, realNum_add, realNum_neg, realNum_mul,
    realNum_div, symCounts, List.map_map, Function.comp_def, Nat.cast_zero, add_zero]
  rw [sum_map_nodup _ (distinctSyms_nodup xs), distinctSyms_toFinset]

/-- `jointShannon` over the reals as a sum over the product of the two alphabets (pairs that never
    occur contribute `0`). -/
theorem joint_eq_prod (xs ys : List Int) :
    jointShannon realNum xs ys =
      ∑ p ∈ xs.toFinset ×ˢ ys.toFinset,
        -(((xs.zip ys).count p : ℝ) / xs.length) * Real.logb 2 (((xs.zip ys).count p : ℝ) / xs.length) := by
  unfold jointShannon
  simp only [realNum_sum, realNum_log2, realNum_ofNat, realNum_neg, realNum_mul, realNum_div]
  rw [jointCounts_eq, sum_filterMap_real]
  rw [sum_map_nodup _ (product_nodup xs ys), product_toFinset]
  apply Finset.sum_congr rfl
  intro p _
  unfold jstep
  split
  · rename_i h; simp [h]
  · simp


/-! ## Gibbs' inequality on a finite joint table -/

section Gibbs
open Real
variable {α β : Type}

theorem term_ge (p a b : ℝ) (hp : 0 ≤ p) (ha : 0 ≤ a) (hb : 0 ≤ b) (hpa : p ≤ a) (hpb : p ≤ b) :
    p - a * b ≤ p * (log p - log a - log b) := by
  rcases hp.eq_or_lt with h | h
  · subst h; simp; exact mul_nonneg ha hb
  · have ha' : 0 < a := lt_of_lt_of_le h hpa
    have hb' : 0 < b := lt_of_lt_of_le h hpb
    have key : log (a * b / p) ≤ a * b / p - 1 := log_le_sub_one_of_pos (by positivity)
    have e : log (a * b / p) = log a + log b - log p := by
      rw [log_div (by positivity) (by positivity), log_mul (by positivity) (by positivity)]
    rw [e] at key
    have := mul_le_mul_of_nonneg_left key h.le
    have e2 : p * (a * b / p - 1) = a * b - p := by field_simp
    rw [e2] at this
    linarith

/-- `H(X) + H(Y) - H(X,Y) ≥ 0` (natural logarithm) for a non-negative joint table summing to 1. -/
theorem gibbs_log (S : Finset α) (T : Finset β) (p : α → β → ℝ) (hp : ∀ x y, 0 ≤ p x y)
    (hsum : ∑ x ∈ S, ∑ y ∈ T, p x y = 1) :
    0 ≤ (-∑ x ∈ S, (∑ y ∈ T, p x y) * log (∑ y ∈ T, p x y))
      + (-∑ y ∈ T, (∑ x ∈ S, p x y) * log (∑ x ∈ S, p x y))
      - (-∑ x ∈ S, ∑ y ∈ T, p x y * log (p x y)) := by
  set px := fun x => ∑ y ∈ T, p x y with hpx
  set py := fun y => ∑ x ∈ S, p x y with hpy
  have e1 : ∑ x ∈ S, px x * log (px x) = ∑ x ∈ S, ∑ y ∈ T, p x y * log (px x) := by
    apply sum_congr rfl; intro x _; rw [hpx]; simp only; rw [sum_mul]
  have e2 : ∑ y ∈ T, py y * log (py y) = ∑ x ∈ S, ∑ y ∈ T, p x y * log (py y) := by
    rw [sum_comm]; apply sum_congr rfl; intro y _; rw [hpy]; simp only; rw [sum_mul]
  have main : ∑ x ∈ S, ∑ y ∈ T, (p x y - px x * py y)
      ≤ ∑ x ∈ S, ∑ y ∈ T, p x y * (log (p x y) - log (px x) - log (py y)) := by
    apply sum_le_sum; intro x hx; apply sum_le_sum; intro y hy
    apply term_ge _ _ _ (hp x y)
    · exact sum_nonneg fun y _ => hp x y
    · exact sum_nonneg fun x _ => hp x y
    · exact single_le_sum (f := fun y => p x y) (fun y _ => hp x y) hy
    · exact single_le_sum (f := fun x => p x y) (fun x _ => hp x y) hx
  have lhs : ∑ x ∈ S, ∑ y ∈ T, (p x y - px x * py y) = 0 := by
    simp only [sum_sub_distrib]
    have : ∑ x ∈ S, ∑ y ∈ T, px x * py y = (∑ x ∈ S, px x) * (∑ y ∈ T, py y) := by
      rw [sum_mul_sum]
    rw [this]
    have h1 : ∑ x ∈ S, px x = 1 := hsum
    have h2 : ∑ y ∈ T, py y = 1 := by rw [← hsum, sum_comm]
    rw [h1, h2]; ring
  have rhs : ∑ x ∈ S, ∑ y ∈ T, p x y * (log (p x y) - log (px x) - log (py y))
      = (∑ x ∈ S, ∑ y ∈ T, p x y * log (p x y)) - (∑ x ∈ S, px x * log (px x))
        - (∑ y ∈ T, py y * log (py y)) := by
    rw [e1, e2, ← sum_sub_distrib, ← sum_sub_distrib]
    apply sum_congr rfl; intro x _
    rw [← sum_sub_distrib, ← sum_sub_distrib]
    apply sum_congr rfl; intro y _; ring
  rw [lhs, rhs] at main
  linarith

theorem sum_mul_logb (S : Finset α) (f : α → ℝ) :
    ∑ x ∈ S, f x * logb 2 (f x) = (∑ x ∈ S, f x * log (f x)) / log 2 := by
  rw [Finset.sum_div]
  apply sum_congr rfl; intro x _
  rw [logb, mul_div_assoc]

/-- The same in bits (`logb 2`). -/
theorem gibbs_logb (S : Finset α) (T : Finset β) (p : α → β → ℝ) (hp : ∀ x y, 0 ≤ p x y)
    (hsum : ∑ x ∈ S, ∑ y ∈ T, p x y = 1) :
    0 ≤ (-∑ x ∈ S, (∑ y ∈ T, p x y) * logb 2 (∑ y ∈ T, p x y))
      + (-∑ y ∈ T, (∑ x ∈ S, p x y) * logb 2 (∑ x ∈ S, p x y))
      - (-∑ x ∈ S, ∑ y ∈ T, p x y * logb 2 (p x y)) := by
  have h := gibbs_log S T p hp hsum
  have h2 : 0 < log 2 := log_pos (by norm_num)
  have e : ∑ x ∈ S, ∑ y ∈ T, p x y * logb 2 (p x y)
      = (∑ x ∈ S, ∑ y ∈ T, p x y * log (p x y)) / log 2 := by
    rw [Finset.sum_div]
    apply sum_congr rfl; intro x _
    exact sum_mul_logb T (p x)
  rw [sum_mul_logb S (fun x => ∑ y ∈ T, p x y), sum_mul_logb T (fun y => ∑ x ∈ S, p x y), e]
  have : (-((∑ x ∈ S, (∑ y ∈ T, p x y) * log (∑ y ∈ T, p x y)) / log 2))
      + (-((∑ y ∈ T, (∑ x ∈ S, p x y) * log (∑ x ∈ S, p x y)) / log 2))
      - (-((∑ x ∈ S, ∑ y ∈ T, p x y * log (p x y)) / log 2))
      = ((-∑ x ∈ S, (∑ y ∈ T, p x y) * log (∑ y ∈ T, p x y))
      + (-∑ y ∈ T, (∑ x ∈ S, p x y) * log (∑ x ∈ S, p x y))
      - (-∑ x ∈ S, ∑ y ∈ T, p x y * log (p x y))) / log 2 := by ring
  rw [this]
  exact div_nonneg h h2.le

/-- `p log2 p ≤ 0` for a frequency `0 ≤ p ≤ 1`. -/
theorem mul_logb_nonpos (p : ℝ) (h0 : 0 ≤ p) (h1 : p ≤ 1) : p * logb 2 p ≤ 0 :=
  mul_nonpos_of_nonneg_of_nonpos h0 (logb_nonpos (by norm_num) h0 h1)

end Gibbs

end Cpl.Entropy
