import Cpl.Lemmas.Bien

/-!
# Lemmas for approximate entropy (`apen.py`), real-valued instance of the model

Exact facts on windows, Chebyshev distance and match counts; the closed form of `phi` over the reals.
-/

namespace Cpl.Apen
open Cpl Cpl.Bien

/-! ## windows -/

theorem windows_length (u : List Int) (m : Nat) : (windows u m).length = u.length + 1 - m := by
  simp [windows]

theorem windows_getElem? (u : List Int) (m i : Nat) (h : i < u.length + 1 - m) :
    (windows u m)[i]? = some ((u.drop i).take m) := by
  simp [windows, h]

theorem mem_windows {u : List Int} {m : Nat} {w : List Int} :
    w ∈ windows u m ↔ ∃ i, i < u.length + 1 - m ∧ w = (u.drop i).take m := by
  simp [windows, eq_comm]

theorem window_length (u : List Int) (m i : Nat) (h : i < u.length + 1 - m) :
    ((u.drop i).take m).length = m := by
  simp; omega

theorem window_getElem? (u : List Int) (m i j : Nat) (hj : j < m) :
    ((u.drop i).take m)[j]? = u[i + j]? := by
  simp [hj]

/-! ## Chebyshev distance -/

theorem foldl_max_ge (l : List Int) (a : Int) : a ≤ l.foldl max a := by
  induction l generalizing a with
  | nil => simp
  | cons x xs ih => exact le_trans (le_max_left a x) (ih (max a x))

theorem foldl_max_le_iff (l : List Int) (a r : Int) :
    l.foldl max a ≤ r ↔ a ≤ r ∧ ∀ x ∈ l, x ≤ r := by
  induction l generalizing a with
  | nil => simp
  | cons x xs ih => simp [ih, and_assoc]

/-- `maxDist a b ≤ r` says exactly: `r ≥ 0` and every aligned pair differs by at most `r`. -/
theorem maxDist_le_iff (a b : List Int) (r : Int) :
    maxDist a b ≤ r ↔ 0 ≤ r ∧ ∀ p ∈ a.zip b, |p.1 - p.2| ≤ r := by
  unfold maxDist
  rw [foldl_max_le_iff]
  constructor
  · rintro ⟨h0, h⟩
    refine ⟨h0, fun p hp => ?_⟩
    have := h _ (List.mem_map.2 ⟨p, hp, rfl⟩)
    simpa using this
  · rintro ⟨h0, h⟩
    refine ⟨h0, fun x hx => ?_⟩
    obtain ⟨p, hp, rfl⟩ := List.mem_map.1 hx
    simpa using h p hp

theorem maxDist_nonneg (a b : List Int) : 0 ≤ maxDist a b := foldl_max_ge _ 0

theorem mem_zip_self {a : List Int} {p : Int × Int} (hp : p ∈ a.zip a) : p.1 = p.2 := by
  induction a with
  | nil => simp at hp
  | cons x xs ih =>
    rcases List.mem_cons.1 hp with h | h
    · rw [h]
    · exact ih h

theorem maxDist_self (a : List Int) : maxDist a a = 0 := by
  apply le_antisymm _ (maxDist_nonneg a a)
  rw [maxDist_le_iff]
  refine ⟨le_refl _, fun p hp => ?_⟩
  simp [mem_zip_self hp]

theorem maxDist_comm (a b : List Int) : maxDist a b = maxDist b a := by
  have key : ∀ (a b : List Int) (r : Int), maxDist a b ≤ r → maxDist b a ≤ r := by
    intro a b r h
    rw [maxDist_le_iff] at h ⊢
    refine ⟨h.1, fun p hp => ?_⟩
    have hp' : (p.2, p.1) ∈ a.zip b := by
      have := List.mem_map_of_mem (f := Prod.swap) hp
      rwa [List.zip_swap] at this
    have := h.2 _ hp'
    rwa [abs_sub_comm] at this
  exact le_antisymm (key b a _ (le_refl _)) (key a b _ (le_refl _))

/-- Two lists whose entries are all equal to `c` are at distance `0`. -/
theorem maxDist_const {a b : List Int} {c : Int} (ha : ∀ x ∈ a, x = c) (hb : ∀ x ∈ b, x = c) :
    maxDist a b = 0 := by
  apply le_antisymm _ (maxDist_nonneg a b)
  rw [maxDist_le_iff]
  refine ⟨le_refl _, fun p hp => ?_⟩
  have h1 := ha _ (List.of_mem_zip hp).1
  have h2 := hb _ (List.of_mem_zip hp).2
  simp [h1, h2]

/-! ## match counts -/

theorem matchCount_le (ws : List (List Int)) (r : Int) (xi : List Int) :
    matchCount ws r xi ≤ ws.length := List.length_filter_le _ _

theorem self_match {ws : List (List Int)} {r : Int} {xi : List Int} (hx : xi ∈ ws) (hr : 0 ≤ r) :
    1 ≤ matchCount ws r xi := by
  unfold matchCount
  apply List.length_pos_of_mem (a := xi)
  simp [List.mem_filter, hx, maxDist_self, hr]

/-- If every window is within `r` of `xi`, all of them are counted. -/
theorem matchCount_all {ws : List (List Int)} {r : Int} {xi : List Int}
    (h : ∀ xj ∈ ws, maxDist xi xj ≤ r) : matchCount ws r xi = ws.length := by
  unfold matchCount
  rw [List.filter_eq_self.2]
  intro xj hj
  simpa using h xj hj

/-! ## `phi` over the reals -/

/-- `phi(m)` is the mean over the `W = N + 1 - m` windows of the logarithm of the fraction of windows within
    distance `r` (self-match included). -/
theorem phi_def (u : List Int) (m : Nat) (r : Int) :
    phi realNum u m r =
      ((windows u m).map fun xi =>
        Real.log ((matchCount (windows u m) r xi : ℝ) / ((u.length + 1 - m : ℕ) : ℝ))).sum
        / ((u.length + 1 - m : ℕ) : ℝ) := by
  simp only [phi, realNum_mul, realNum_div, realNum_ofNat, realNum_sum, List.map_map]
  rw [Nat.cast_one, one_div, mul_comm, div_eq_mul_inv]
  rfl

/-- Each fraction is in `(0, 1]` for a window of the sequence and `r ≥ 0`. -/
theorem fraction_mem {u : List Int} {m : Nat} {r : Int} {xi : List Int} (hx : xi ∈ windows u m) (hr : 0 ≤ r) :
    0 < (matchCount (windows u m) r xi : ℝ) / ((u.length + 1 - m : ℕ) : ℝ) ∧
    (matchCount (windows u m) r xi : ℝ) / ((u.length + 1 - m : ℕ) : ℝ) ≤ 1 := by
  have h1 := self_match hx hr
  have h2 := matchCount_le (windows u m) r xi
  rw [windows_length] at h2
  have hW : 0 < ((u.length + 1 - m : ℕ) : ℝ) := by
    have : 0 < u.length + 1 - m := by omega
    exact_mod_cast this
  have hc : 0 < (matchCount (windows u m) r xi : ℝ) := by exact_mod_cast h1
  refine ⟨div_pos hc hW, ?_⟩
  rw [div_le_one hW]
  exact_mod_cast h2

theorem phi_nonpos (u : List Int) (m : Nat) (r : Int) : phi realNum u m r ≤ 0 := by
  rw [phi_def]
  apply div_nonpos_of_nonpos_of_nonneg _ (Nat.cast_nonneg _)
  suffices h : ∀ l : List ℝ, (∀ x ∈ l, x ≤ 0) → l.sum ≤ 0 by
    apply h
    intro x hx
    obtain ⟨xi, -, rfl⟩ := List.mem_map.1 hx
    have h2 := matchCount_le (windows u m) r xi
    rw [windows_length] at h2
    apply Real.log_nonpos (by positivity)
    rcases Nat.eq_zero_or_pos (u.length + 1 - m) with h0 | h0
    · simp [h0]
    · rw [div_le_one (by exact_mod_cast h0)]
      exact_mod_cast h2
  intro l hl
  induction l with
  | nil => simp
  | cons x xs ih =>
    have h1 := hl x (by simp)
    have h2 := ih (fun y hy => hl y (by simp [hy]))
    simp only [List.sum_cons]
    linarith

/-- On a constant sequence every `phi` vanishes: all windows coincide, every fraction is `1`. -/
theorem phi_const {u : List Int} {c : Int} (hu : ∀ x ∈ u, x = c) (m : Nat) {r : Int} (hr : 0 ≤ r) :
    phi realNum u m r = 0 := by
  rw [phi_def]
  have hall : ∀ xi ∈ windows u m, ∀ y ∈ xi, y = c := by
    intro xi hxi y hy
    obtain ⟨i, -, rfl⟩ := mem_windows.1 hxi
    exact hu y (List.mem_of_mem_drop (List.mem_of_mem_take hy))
  have : ∀ x ∈ ((windows u m).map fun xi =>
        Real.log ((matchCount (windows u m) r xi : ℝ) / ((u.length + 1 - m : ℕ) : ℝ))), x = 0 := by
    intro x hx
    obtain ⟨xi, hxi, rfl⟩ := List.mem_map.1 hx
    have hc : matchCount (windows u m) r xi = u.length + 1 - m := by
      rw [matchCount_all, windows_length]
      intro xj hxj
      rw [maxDist_const (hall xi hxi) (hall xj hxj)]
      exact hr
    have hpos : 0 < u.length + 1 - m := by
      have := self_match hxi hr
      omega
    have hne : ((u.length + 1 - m : ℕ) : ℝ) ≠ 0 := by exact_mod_cast hpos.ne'
    rw [hc, div_self hne, Real.log_one]
  rw [List.sum_eq_zero this, zero_div]

end Cpl.Apen
