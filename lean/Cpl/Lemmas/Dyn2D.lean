import Cpl.Spec.Torus
import Cpl.Lemmas.Evolve2D
import Cpl.Lemmas.Memo2D
import Cpl.Model.Block

/-!
# Helper lemmas for the 2D parts of C05 and C06: `fixedLoop2` / `dynLoop2`, grid shapes in every
memoize mode, composition of 2D runs, shapes and composition of the block evolvers.

Everything lives in `Cpl.Dyn2D` to stay clear of the other lemma files.
-/

namespace Cpl.Dyn2D
open Cpl Py Spec

section
variable {σ α : Type}

/-! ## `fixedLoop2`: unfolding, length, prefixes -/

theorem fixedLoop2_succ [DecidableEq α] [Inhabited α] (mode : Mode) (rule : Rule2 σ α)
    (r : Nat) (vn : Bool) (k t : Nat) (g : Grid α) (cs : Caches2 α) (s : σ) :
    fixedLoop2 mode rule r vn (k + 1) t g cs s
      = ((Cpl.step2 mode rule r vn g t cs s).1 ::
          (fixedLoop2 mode rule r vn k (t + 1) (Cpl.step2 mode rule r vn g t cs s).1
            (Cpl.step2 mode rule r vn g t cs s).2.1 (Cpl.step2 mode rule r vn g t cs s).2.2).1,
         (fixedLoop2 mode rule r vn k (t + 1) (Cpl.step2 mode rule r vn g t cs s).1
            (Cpl.step2 mode rule r vn g t cs s).2.1 (Cpl.step2 mode rule r vn g t cs s).2.2).2) := rfl

theorem fixedLoop2_length [DecidableEq α] [Inhabited α] (mode : Mode) (rule : Rule2 σ α) (r : Nat)
    (vn : Bool) :
    ∀ (k t : Nat) (g : Grid α) (cs : Caches2 α) (s : σ),
      (fixedLoop2 mode rule r vn k t g cs s).1.length = k
  | 0, _, _, _, _ => rfl
  | k + 1, t, g, cs, s => by
    rw [fixedLoop2_succ]
    simp only [List.length_cons]
    rw [fixedLoop2_length mode rule r vn k]

theorem fixedLoop2_take [DecidableEq α] [Inhabited α] (mode : Mode) (rule : Rule2 σ α) (r : Nat)
    (vn : Bool) :
    ∀ (i k t : Nat) (g : Grid α) (cs : Caches2 α) (s : σ), i ≤ k →
      (fixedLoop2 mode rule r vn i t g cs s).1 = (fixedLoop2 mode rule r vn k t g cs s).1.take i
  | 0, _, _, _, _, _, _ => by simp [fixedLoop2]
  | i + 1, 0, _, _, _, _, h => by omega
  | i + 1, k + 1, t, g, cs, s, h => by
    rw [fixedLoop2_succ, fixedLoop2_succ]
    simp only [List.take_succ_cons]
    rw [fixedLoop2_take mode rule r vn i k _ _ _ _ (by omega)]

/-! ## `dynLoop2` against `fixedLoop2` -/

theorem dynLoop2_eq_fixedLoop2 [DecidableEq α] [Inhabited α] (mode : Mode) (rule : Rule2 σ α)
    (r : Nat) (nb : NbType) (pred : List (Grid α) → Nat → Bool) :
    ∀ (m fuel t : Nat) (acc : List (Grid α)) (g : Grid α) (cs : Caches2 α) (s : σ),
      (m = 0 ∨ (nb ≠ .unknown ∧ mode ≠ .bad)) → m < fuel →
      (∀ i, i < m →
        pred (acc ++ (fixedLoop2 mode rule r (decide (nb = .vonNeumann)) i t g cs s).1) (t + i) = true) →
      pred (acc ++ (fixedLoop2 mode rule r (decide (nb = .vonNeumann)) m t g cs s).1) (t + m) = false →
      dynLoop2 mode rule r nb pred fuel t acc g cs s
        = some (.ok (acc ++ (fixedLoop2 mode rule r (decide (nb = .vonNeumann)) m t g cs s).1,
                     (fixedLoop2 mode rule r (decide (nb = .vonNeumann)) m t g cs s).2.2))
  | 0, fuel, t, acc, g, cs, s, _, hfuel, _, hno => by
    obtain ⟨f, rfl⟩ : ∃ f, fuel = f + 1 := ⟨fuel - 1, by omega⟩
    have hno' : pred acc t = false := by simpa [fixedLoop2] using hno
    simp [dynLoop2, hno', fixedLoop2]
  | m + 1, fuel, t, acc, g, cs, s, hm, hfuel, hyes, hno => by
    obtain ⟨f, rfl⟩ : ∃ f, fuel = f + 1 := ⟨fuel - 1, by omega⟩
    have hm' : nb ≠ .unknown ∧ mode ≠ .bad := by
      rcases hm with h | h
      · omega
      · exact h
    have h0 : pred acc t = true := by simpa [fixedLoop2] using hyes 0 (by omega)
    simp only [dynLoop2, h0, if_true, hm'.1, hm'.2, if_false]
    rw [dynLoop2_eq_fixedLoop2 mode rule r nb pred m f (t + 1) _ _ _ _ (Or.inr hm') (by omega)]
    · rw [fixedLoop2_succ]
      simp [List.append_assoc]
    · intro i hi
      have := hyes (i + 1) (by omega)
      rw [fixedLoop2_succ] at this
      simpa [List.append_assoc, Nat.add_assoc, Nat.add_comm 1 i] using this
    · have := hno
      rw [fixedLoop2_succ] at this
      simpa [List.append_assoc, Nat.add_assoc, Nat.add_comm 1 m] using this

theorem dynLoop2_ok_inv [DecidableEq α] [Inhabited α] (mode : Mode) (rule : Rule2 σ α)
    (r : Nat) (nb : NbType) (pred : List (Grid α) → Nat → Bool) :
    ∀ (fuel t : Nat) (acc : List (Grid α)) (g : Grid α) (cs : Caches2 α) (s : σ)
      (res : List (Grid α)) (s' : σ),
      dynLoop2 mode rule r nb pred fuel t acc g cs s = some (.ok (res, s')) →
      ∃ m, (∀ i, i < m →
          pred (acc ++ (fixedLoop2 mode rule r (decide (nb = .vonNeumann)) i t g cs s).1) (t + i) = true) ∧
        pred (acc ++ (fixedLoop2 mode rule r (decide (nb = .vonNeumann)) m t g cs s).1) (t + m) = false ∧
        res = acc ++ (fixedLoop2 mode rule r (decide (nb = .vonNeumann)) m t g cs s).1 ∧
        s' = (fixedLoop2 mode rule r (decide (nb = .vonNeumann)) m t g cs s).2.2 ∧
        (1 ≤ m → nb ≠ .unknown ∧ mode ≠ .bad)
  | 0, _, _, _, _, _, _, _, h => by simp [dynLoop2] at h
  | f + 1, t, acc, g, cs, s, res, s', h => by
    by_cases hp : pred acc t = true
    · by_cases hn : nb = .unknown
      · simp [dynLoop2, hp, hn] at h
      · by_cases hm : mode = .bad
        · simp [dynLoop2, hp, hn, hm] at h
        · simp only [dynLoop2, hp, if_true, hn, hm, if_false] at h
          obtain ⟨m, hyes, hno, hres, hs, _⟩ := dynLoop2_ok_inv mode rule r nb pred f _ _ _ _ _ _ _ h
          refine ⟨m + 1, ?_, ?_, ?_, ?_, fun _ => ⟨hn, hm⟩⟩
          · intro i hi
            cases i with
            | zero => simpa [fixedLoop2] using hp
            | succ i =>
              have := hyes i (by omega)
              rw [fixedLoop2_succ]
              simpa [List.append_assoc, Nat.add_assoc, Nat.add_comm 1 i] using this
          · rw [fixedLoop2_succ]
            simpa [List.append_assoc, Nat.add_assoc, Nat.add_comm 1 m] using hno
          · rw [fixedLoop2_succ]
            simpa [List.append_assoc] using hres
          · rw [fixedLoop2_succ]
            exact hs
    · have hp' : pred acc t = false := by simpa using hp
      simp only [dynLoop2, hp', Bool.false_eq_true, if_false, Option.some.injEq, Except.ok.injEq,
        Prod.mk.injEq] at h
      refine ⟨0, ?_, ?_, ?_, ?_, fun h => by omega⟩
      · intro i hi; omega
      · simpa [fixedLoop2] using hp'
      · simp [fixedLoop2, h.1]
      · simp [fixedLoop2, h.2]

/-! ## `until_fixed_point` (2D) looks at the last two grids -/

theorem untilFixedPoint2_take [DecidableEq α] (ca : List (Grid α)) (i t : Nat) (hi : i < ca.length) :
    untilFixedPoint2 (ca.take (i + 1)) t
      = if 1 ≤ i then !(decide (ca[i - 1]? = ca[i]?)) else true := by
  have hlen : (ca.take (i + 1)).length = i + 1 := by
    rw [List.length_take]; omega
  unfold untilFixedPoint2
  rw [hlen]
  by_cases h : 1 ≤ i
  · have h' : i + 1 > 1 := by omega
    simp only [h', h, if_true]
    have e1 : i + 1 - 2 = i - 1 := by omega
    have e2 : i + 1 - 1 = i := by omega
    rw [e1, e2, List.getElem?_take_of_lt (by omega), List.getElem?_take_of_lt (by omega)]
  · have h' : ¬ i + 1 > 1 := by omega
    simp only [h', h, if_false]

end
end Cpl.Dyn2D
