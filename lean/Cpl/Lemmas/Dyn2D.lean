import Cpl.Spec.Torus
import Cpl.Lemmas.Evolve2D
import Cpl.Lemmas.Memo2D
import Cpl.Model.Block

/-!
# Helper lemmas for the 2D parts of C05 and C06: `fixedLoop2` / `dynLoop2`, grid shapes in every
memoize mode, composition of 2D runs, shapes and composition of the block evolvers.

Everything lives in `Cpl.Dyn2D` to stay clear of the other lemma files.
-/

namespace Cpl.Dyn2D
open Cpl Py Spec

section
variable {σ α : Type}

/-! ## `fixedLoop2`: unfolding, length, prefixes -/

theorem fixedLoop2_succ [DecidableEq α] [Inhabited α] (mode : Mode) (rule : Rule2 σ α)
    (r : Nat) (vn : Bool) (k t : Nat) (g : Grid α) (cs : Caches2 α) (s : σ) :
    fixedLoop2 mode rule r vn (k + 1) t g cs s
      = ((Cpl.step2 mode rule r vn g t cs s).1 ::
          (fixedLoop2 mode rule r vn k (t + 1) (Cpl.step2 mode rule r vn g t cs s).1
            (Cpl.step2 mode rule r vn g t cs s).2.1 (Cpl.step2 mode rule r vn g t cs s).2.2).1,
         (fixedLoop2 mode rule r vn k (t + 1) (Cpl.step2 mode rule r vn g t cs s).1
            (Cpl.step2 mode rule r vn g t cs s).2.1 (Cpl.step2 mode rule r vn g t cs s).2.2).2) := rfl

theorem fixedLoop2_length [DecidableEq α] [Inhabited α] (mode : Mode) (rule : Rule2 σ α) (r : Nat)
    (vn : Bool) :
    ∀ (k t : Nat) (g : Grid α) (cs : Caches2 α) (s : σ),
      (fixedLoop2 mode rule r vn k t g cs s).1.length = k
  | 0, _, _, _, _ => rfl
  | k + 1, t, g, cs, s => by
    rw [fixedLoop2_succ]
    simp only [List.length_cons]
    rw [fixedLoop2_length mode rule r vn k]

theorem fixedLoop2_take [DecidableEq α] [Inhabited α] (mode : Mode) (rule : Rule2 σ α) (r : Nat)
    (vn : Bool) :
    ∀ (i k t : Nat) (g : Grid α) (cs : Caches2 α) (s : σ), i ≤ k →
      (fixedLoop2 mode rule r vn i t g cs s).1 = (fixedLoop2 mode rule r vn k t g cs s).1.take i
  | 0, _, _, _, _, _, _ => by simp [fixedLoop2]
  | i + 1, 0, _, _, _, _, h => by omega
  | i + 1, k + 1, t, g, cs, s, h => by
    rw [fixedLoop2_succ, fixedLoop2_succ]
    simp only [List.take_succ_cons]
    rw [fixedLoop2_take mode rule r vn i k _ _ _ _ (by omega)]

/-! ## `dynLoop2` against `fixedLoop2` -/

theorem dynLoop2_eq_fixedLoop2 [DecidableEq α] [Inhabited α] (mode : Mode) (rule : Rule2 σ α)
    (r : Nat) (nb : NbType) (pred : List (Grid α) → Nat → Bool) :
    ∀ (m fuel t : Nat) (acc : List (Grid α)) (g : Grid α) (cs : Caches2 α) (s : σ),
      (m = 0 ∨ (nb ≠ .unknown ∧ mode ≠ .bad)) → m < fuel →
      (∀ i, i < m →
        pred (acc ++ (fixedLoop2 mode rule r (decide (nb = .vonNeumann)) i t g cs s).1) (t + i) = true) →
      pred (acc ++ (fixedLoop2 mode rule r (decide (nb = .vonNeumann)) m t g cs s).1) (t + m) = false →
      dynLoop2 mode rule r nb pred fuel t acc g cs s
        = some (.ok (acc ++ (fixedLoop2 mode rule r (decide (nb = .vonNeumann)) m t g cs s).1,
                     (fixedLoop2 mode rule r (decide (nb = .vonNeumann)) m t g cs s).2.2))
  | 0, fuel, t, acc, g, cs, s, _, hfuel, _, hno => by
    obtain ⟨f, rfl⟩ : ∃ f, fuel = f + 1 := ⟨fuel - 1, by omega⟩
    have hno' : pred acc t = false := by simpa [fixedLoop2] using hno
    simp [dynLoop2, hno', fixedLoop2]
  | m + 1, fuel, t, acc, g, cs, s, hm, hfuel, hyes, hno => by
    obtain ⟨f, rfl⟩ : ∃ f, fuel = f + 1 := ⟨fuel - 1, by omega⟩
    have hm' : nb ≠ .unknown ∧ mode ≠ .bad := by
      rcases hm with h | h
      · omega
      · exact h
    have h0 : pred acc t = true := by simpa [fixedLoop2] using hyes 0 (by omega)
    simp only [dynLoop2, h0, if_true, hm'.1, hm'.2, if_false]
    rw [dynLoop2_eq_fixedLoop2 mode rule r nb pred m f (t + 1) _ _ _ _ (Or.inr hm') (by omega)]
    · rw [fixedLoop2_succ]
      simp [List.append_assoc]
    · intro i hi
      have := hyes (i + 1) (by omega)
      rw [fixedLoop2_succ] at this
      simpa [List.append_assoc, Nat.add_assoc, Nat.add_comm 1 i] using this
    · have := hno
      rw [fixedLoop2_succ] at this
      simpa [List.append_assoc, Nat.add_assoc, Nat.add_comm 1 m] using this

theorem dynLoop2_ok_inv [DecidableEq α] [Inhabited α] (mode : Mode) (rule : Rule2 σ α)
    (r : Nat) (nb : NbType) (pred : List (Grid α) → Nat → Bool) :
    ∀ (fuel t : Nat) (acc : List (Grid α)) (g : Grid α) (cs : Caches2 α) (s : σ)
      (res : List (Grid α)) (s' : σ),
      dynLoop2 mode rule r nb pred fuel t acc g cs s = some (.ok (res, s')) →
      ∃ m, (∀ i, i < m →
          pred (acc ++ (fixedLoop2 mode rule r (decide (nb = .vonNeumann)) i t g cs s).1) (t + i) = true) ∧
        pred (acc ++ (fixedLoop2 mode rule r (decide (nb = .vonNeumann)) m t g cs s).1) (t + m) = false ∧
        res = acc ++ (fixedLoop2 mode rule r (decide (nb = .vonNeumann)) m t g cs s).1 ∧
        s' = (fixedLoop2 mode rule r (decide (nb = .vonNeumann)) m t g cs s).2.2 ∧
        (1 ≤ m → nb ≠ .unknown ∧ mode ≠ .bad)
  | 0, _, _, _, _, _, _, _, h => by simp [dynLoop2] at h
  | f + 1, t, acc, g, cs, s, res, s', h => by
    by_cases hp : pred acc t = true
    · by_cases hn : nb = .unknown
      · simp [dynLoop2, hp, hn] at h
      · by_cases hm : mode = .bad
        · simp [dynLoop2, hp, hn, hm] at h
        · simp only [dynLoop2, hp, if_true, hn, hm, if_false] at h
          obtain ⟨m, hyes, hno, hres, hs, _⟩ := dynLoop2_ok_inv mode rule r nb pred f _ _ _ _ _ _ _ h
          refine ⟨m + 1, ?_, ?_, ?_, ?_, fun _ => ⟨hn, hm⟩⟩
          · intro i hi
            cases i with
            | zero => simpa [fixedLoop2] using hp
            | succ i =>
              have := hyes i (by omega)
              rw [fixedLoop2_succ]
              simpa [List.append_assoc, Nat.add_assoc, Nat.add_comm 1 i] using this
          · rw [fixedLoop2_succ]
            simpa [List.append_assoc, Nat.add_assoc, Nat.add_comm 1 m] using hno
          · rw [fixedLoop2_succ]
            simpa [List.append_assoc] using hres
          · rw [fixedLoop2_succ]
            exact hs
    · have hp' : pred acc t = false := by simpa using hp
      simp only [dynLoop2, hp', Bool.false_eq_true, if_false, Option.some.injEq, Except.ok.injEq,
        Prod.mk.injEq] at h
      refine ⟨0, ?_, ?_, ?_, ?_, fun h => by omega⟩
      · intro i hi; omega
      · simpa [fixedLoop2] using hp'
      · simp [fixedLoop2, h.1]
      · simp [fixedLoop2, h.2]

/-! ## `until_fixed_point` (2D) looks at the last two grids -/

theorem untilFixedPoint2_take [DecidableEq α] (ca : List (Grid α)) (i t : Nat) (hi : i < ca.length) :
    untilFixedPoint2 (ca.take (i + 1)) t
      = if 1 ≤ i then !(decide (ca[i - 1]? = ca[i]?)) else true := by
  have hlen : (ca.take (i + 1)).length = i + 1 := by
    rw [List.length_take]; omega
  unfold untilFixedPoint2
  rw [hlen]
  by_cases h : 1 ≤ i
  · have h' : i + 1 > 1 := by omega
    simp only [h', h, if_true]
    have e1 : i + 1 - 2 = i - 1 := by omega
    have e2 : i + 1 - 1 = i := by omega
    rw [e1, e2, List.getElem?_take_of_lt (by omega), List.getElem?_take_of_lt (by omega)]
  · have h' : ¬ i + 1 > 1 := by omega
    simp only [h', h, if_false]

/-! ## Grid shapes in every memoize mode (any stateful rule) -/

theorem plainSweep_rect [Inhabited α] (rule : Rule2 σ α) (g : Grid α) (r : Nat) (vn : Bool) (t : Nat)
    {R C : Nat} :
    ∀ (cells : List (Nat × Nat)) (next : Grid α) (s : σ), Rect next R C →
      Rect (plainSweep rule g r vn t cells next s).1 R C
  | [], _, _, h => h
  | (i, j) :: rest, next, s, h => by
    simp only [plainSweep]
    exact plainSweep_rect rule g r vn t rest _ _ (Memo2D.rect_setCell h _ _ _)

theorem memoSweep_rect [DecidableEq α] [Inhabited α] (rule : Rule2 σ α) (g : Grid α) (r : Nat) (vn : Bool)
    (t : Nat) {R C : Nat} :
    ∀ (cells : List (Nat × Nat)) (next : Grid α) (tbl : MemoTable2 α) (s : σ), Rect next R C →
      Rect (memoSweep rule g r vn t cells next tbl s).1 R C
  | [], _, _, _, h => h
  | (i, j) :: rest, next, tbl, s, h => by
    rw [memoSweep]
    simp only
    split
    · exact memoSweep_rect rule g r vn t rest _ _ _ (Memo2D.rect_setCell h _ _ _)
    · exact memoSweep_rect rule g r vn t rest _ _ _ (Memo2D.rect_setCell h _ _ _)

theorem foldl_rect {β : Type} (F : β → RecSt2 σ α → RecSt2 σ α) {R C : Nat}
    (hF : ∀ q st, Rect st.next R C → Rect (F q st).next R C) :
    ∀ (qs : List β) (st : RecSt2 σ α), Rect st.next R C →
      Rect (qs.foldl (fun acc q => F q acc) st).next R C
  | [], _, h => h
  | q :: qs, st, h => by
    rw [List.foldl_cons]
    exact foldl_rect F hF qs _ (hF q st h)

theorem updateRec2_rect [DecidableEq α] [Inhabited α] (rule : Rule2 σ α) (r : Nat) (vn : Bool)
    (g : Grid α) (t : Nat) {R C : Nat} :
    ∀ (fuel : Nat) (b : Blk) (st : RecSt2 σ α), Rect st.next R C →
      Rect (updateRec2 rule r vn g t fuel b st).next R C := by
  intro fuel
  induction fuel with
  | zero => intro b st h; exact h
  | succ fuel ih =>
    intro b st h
    rw [updateRec2]
    split
    · exact h
    · simp only
      split
      · exact Memo2D.rect_setBlock h _ _
      · split
        · exact foldl_rect (fun q acc => updateRec2 rule r vn g t fuel q acc)
            (fun q st' h' => ih q st' h') _ _ h
        · exact Memo2D.rect_setCell h _ _ _

theorem stepRec2_rect [DecidableEq α] [Inhabited α] (rule : Rule2 σ α) (r : Nat) (vn : Bool)
    (g : Grid α) (t : Nat) (cache : RecCache2 α) (s : σ) :
    Rect (stepRec2 rule r vn g t cache s).next g.length (gridCols g) := by
  unfold stepRec2
  simp only
  exact foldl_rect (fun q acc => updateRec2 rule r vn g t (g.length + gridCols g + 1) q acc)
    (fun q st' h' => updateRec2_rect rule r vn g t _ q st' h') _ _ (Memo2D.rect_zeroGrid _ _)

/-- One step keeps the shape of the grid, in every mode (also the unsupported one) and for every rule. -/
theorem step2_rect_any [DecidableEq α] [Inhabited α] (mode : Mode) (rule : Rule2 σ α) (r : Nat) (vn : Bool)
    (g : Grid α) (t : Nat) (cs : Caches2 α) (s : σ) :
    Rect (Cpl.step2 mode rule r vn g t cs s).1 g.length (gridCols g) := by
  cases mode with
  | recursive => exact stepRec2_rect rule r vn g t cs.rc s
  | memo => exact memoSweep_rect rule g r vn t _ _ _ _ (Memo2D.rect_zeroGrid _ _)
  | plain => exact plainSweep_rect rule g r vn t _ _ _ (Memo2D.rect_zeroGrid _ _)
  | bad => exact plainSweep_rect rule g r vn t _ _ _ (Memo2D.rect_zeroGrid _ _)

theorem fixedLoop2_rect [DecidableEq α] [Inhabited α] (mode : Mode) (rule : Rule2 σ α) (r : Nat) (vn : Bool)
    {R C : Nat} (hR1 : 1 ≤ R) :
    ∀ (k t : Nat) (g : Grid α) (cs : Caches2 α) (s : σ), Rect g R C →
      ∀ g' ∈ (fixedLoop2 mode rule r vn k t g cs s).1, Rect g' R C
  | 0, _, _, _, _, _ => by simp [fixedLoop2]
  | k + 1, t, g, cs, s, hg => by
    intro g' hg'
    rw [fixedLoop2_succ] at hg'
    simp only [List.mem_cons] at hg'
    have hs : Rect (Cpl.step2 mode rule r vn g t cs s).1 R C := by
      have := step2_rect_any mode rule r vn g t cs s
      rwa [hg.1, Memo2D.rect_gridCols hg hR1] at this
    rcases hg' with h | h
    · rw [h]; exact hs
    · exact fixedLoop2_rect mode rule r vn hR1 k _ _ _ _ hs g' h

/-! ## Composition of 2D specification runs -/

theorem run2_add [Inhabited α] (rule : Rule2 σ α) (R C r : Nat) (vn : Bool) :
    ∀ (k1 k2 t : Nat) (g : Grid α) (s : σ),
      run2 rule R C r vn (k1 + k2) t g s
        = ((run2 rule R C r vn k1 t g s).1 ++
            (run2 rule R C r vn k2 (t + k1) ((run2 rule R C r vn k1 t g s).1.getLast?.getD g)
              (run2 rule R C r vn k1 t g s).2).1,
           (run2 rule R C r vn k2 (t + k1) ((run2 rule R C r vn k1 t g s).1.getLast?.getD g)
              (run2 rule R C r vn k1 t g s).2).2)
  | 0, k2, t, g, s => by simp [run2]
  | k1 + 1, k2, t, g, s => by
    have e : k1 + 1 + k2 = (k1 + k2) + 1 := by omega
    rw [e]
    simp only [run2]
    rw [run2_add rule R C r vn k1 k2 (t + 1)]
    simp [List.getLast?_cons, Nat.add_assoc, Nat.add_comm 1 k1]

theorem cellVals_timeFree [Inhabited α] (rule : Rule2 σ α) (htf : TimeFree2 rule) (g : Grid α)
    (R C r : Nat) (vn : Bool) (t t' : Nat) :
    ∀ (cs : List (Nat × Nat)) (s : σ),
      cellVals rule g R C r vn t cs s = cellVals rule g R C r vn t' cs s
  | [], _ => rfl
  | (i, j) :: cs, s => by
    simp only [cellVals]
    rw [htf s _ (i, j) t t', cellVals_timeFree rule htf g R C r vn t t' cs]

theorem run2_timeFree [Inhabited α] (rule : Rule2 σ α) (htf : TimeFree2 rule) (R C r : Nat) (vn : Bool) :
    ∀ (k t t' : Nat) (g : Grid α) (s : σ),
      run2 rule R C r vn k t g s = run2 rule R C r vn k t' g s
  | 0, _, _, _, _ => rfl
  | k + 1, t, t', g, s => by
    simp only [run2, Spec.step2]
    rw [cellVals_timeFree rule htf g R C r vn t t', run2_timeFree rule htf R C r vn k (t + 1) (t' + 1)]

theorem run2_rect [Inhabited α] (rule : Rule2 σ α) (R C r : Nat) (vn : Bool) :
    ∀ (k t : Nat) (g : Grid α) (s : σ), ∀ g' ∈ (run2 rule R C r vn k t g s).1, Rect g' R C
  | 0, _, _, _ => by simp [run2]
  | k + 1, t, g, s => by
    intro g' hg'
    simp only [run2, List.mem_cons] at hg'
    rcases hg' with h | h
    · rw [h]; exact spec_step2_rect rule g R C r vn t s
    · exact run2_rect rule R C r vn k _ _ _ g' h

theorem run2_getLast_rect [Inhabited α] (rule : Rule2 σ α) (R C r : Nat) (vn : Bool) (k t : Nat)
    (g : Grid α) (s : σ) (hg : Rect g R C) :
    Rect ((run2 rule R C r vn k t g s).1.getLast?.getD g) R C := by
  cases h : (run2 rule R C r vn k t g s).1.getLast? with
  | none => exact hg
  | some g' => exact run2_rect rule R C r vn k t g s g' (List.mem_of_getLast? h)

theorem pureRun2_rect [Inhabited α] (f : Nbhd2 α → α) (R C r : Nat) (vn : Bool) :
    ∀ (k : Nat) (g : Grid α), ∀ g' ∈ pureRun2 f R C r vn k g, Rect g' R C
  | 0, _ => by simp [pureRun2]
  | k + 1, g => by
    intro g' hg'
    simp only [pureRun2, List.mem_cons] at hg'
    rcases hg' with h | h
    · rw [h]; exact Memo2D.rect_pureStep2 f R C r vn g
    · exact pureRun2_rect f R C r vn k _ g' h

theorem pureRun2_length [Inhabited α] (f : Nbhd2 α → α) (R C r : Nat) (vn : Bool) :
    ∀ (k : Nat) (g : Grid α), (pureRun2 f R C r vn k g).length = k
  | 0, _ => rfl
  | k + 1, g => by simp only [pureRun2, List.length_cons, pureRun2_length f R C r vn k]

theorem pureRun2_getLast_rect [Inhabited α] (f : Nbhd2 α → α) (R C r : Nat) (vn : Bool) (k : Nat)
    (g : Grid α) (hg : Rect g R C) :
    Rect ((pureRun2 f R C r vn k g).getLast?.getD g) R C := by
  cases h : (pureRun2 f R C r vn k g).getLast? with
  | none => exact hg
  | some g' => exact pureRun2_rect f R C r vn k g g' (List.mem_of_getLast? h)

theorem pureRun2_add [Inhabited α] (f : Nbhd2 α → α) (R C r : Nat) (vn : Bool) :
    ∀ (k1 k2 : Nat) (g : Grid α),
      pureRun2 f R C r vn (k1 + k2) g
        = pureRun2 f R C r vn k1 g ++
            pureRun2 f R C r vn k2 ((pureRun2 f R C r vn k1 g).getLast?.getD g)
  | 0, k2, g => by simp [pureRun2]
  | k1 + 1, k2, g => by
    have e : k1 + 1 + k2 = (k1 + k2) + 1 := by omega
    rw [e]
    simp only [pureRun2]
    rw [pureRun2_add f R C r vn k1 k2]
    simp [List.getLast?_cons]

theorem getLast?_append_some2 {β : Type} (hist rows : List β) (init : β)
    (h : hist.getLast? = some init) :
    (hist ++ rows).getLast? = some (rows.getLast?.getD init) := by
  rw [List.getLast?_append, h]
  cases rows.getLast? <;> rfl

end

/-! ## Block evolvers: shapes, composition, parity -/

section block
variable {σ α : Type}

theorem blockLoop2_length [Inhabited α] (rule : BlockRule2 σ α) (b0 b1 k t : Nat) (g : Grid α) (s : σ) :
    (blockLoop2 rule b0 b1 k t g s).1.length = k := by
  induction k generalizing t g s with
  | zero => rfl
  | succ k ih => simp only [blockLoop2, List.length_cons, ih]

theorem foldl_inv {β γ : Type} (P : γ → Prop) (F : γ → β → γ) (hF : ∀ acc x, P acc → P (F acc x)) :
    ∀ (l : List β) (acc : γ), P acc → P (l.foldl F acc)
  | [], _, h => h
  | x :: l, acc, h => by
    rw [List.foldl_cons]
    exact foldl_inv P F hF l _ (hF acc x h)

theorem writeIx2_rect [Inhabited α] {R C : Nat} (g : Grid α) (ri ci : List Nat) (vals : Grid α)
    (hg : Rect g R C) : Rect (writeIx2 g ri ci vals) R C := by
  unfold writeIx2
  apply foldl_inv (fun acc : Grid α => Rect acc R C) _ _ _ _ hg
  intro acc x hacc
  apply foldl_inv (fun acc : Grid α => Rect acc R C) _ _ _ _ hacc
  intro acc2 y hacc2
  exact Memo2D.rect_setCell hacc2 _ _ _

theorem blockSweep2_rect [Inhabited α] (rule : BlockRule2 σ α) (layer : Grid α) (t : Nat) {R C : Nat} :
    ∀ (strides : List (List Nat × List Nat)) (arr : Grid α) (s : σ), Rect arr R C →
      Rect (blockSweep2 rule layer t strides arr s).1 R C
  | [], _, _, h => h
  | (ri, ci) :: rest, arr, s, h => by
    simp only [blockSweep2]
    exact blockSweep2_rect rule layer t rest _ _ (writeIx2_rect _ _ _ _ h)

theorem blockStep2_rect [Inhabited α] (rule : BlockRule2 σ α) (b0 b1 : Nat) (layer : Grid α) (t : Nat)
    (s : σ) : Rect (blockStep2 rule b0 b1 layer t s).1 layer.length (gridCols layer) := by
  unfold blockStep2
  exact blockSweep2_rect rule layer t _ _ _ (Memo2D.rect_zeroGrid _ _)

/-- A grid with the row count of `g` whose rows all have `gridCols g` cells has the same `gridCols`. -/
theorem gridCols_of_rect {g g' : Grid α} (h : Rect g' g.length (gridCols g)) : gridCols g' = gridCols g := by
  by_cases h0 : 1 ≤ g.length
  · exact Memo2D.rect_gridCols h h0
  · have hg : g = [] := List.length_eq_zero_iff.mp (by omega)
    have hg' : g' = [] := List.length_eq_zero_iff.mp (by rw [h.1]; omega)
    rw [hg, hg']

theorem blockStep2_shape [Inhabited α] (rule : BlockRule2 σ α) (b0 b1 : Nat) (layer : Grid α) (t : Nat)
    (s : σ) :
    (blockStep2 rule b0 b1 layer t s).1.length = layer.length ∧
    gridCols (blockStep2 rule b0 b1 layer t s).1 = gridCols layer :=
  ⟨(blockStep2_rect rule b0 b1 layer t s).1, gridCols_of_rect (blockStep2_rect rule b0 b1 layer t s)⟩

theorem blockLoop2_rect [Inhabited α] (rule : BlockRule2 σ α) (b0 b1 k t : Nat) (g : Grid α) (s : σ) :
    ∀ g' ∈ (blockLoop2 rule b0 b1 k t g s).1, Rect g' g.length (gridCols g) := by
  induction k generalizing t g s with
  | zero => intro g' h; simp [blockLoop2] at h
  | succ k ih =>
    intro g' h
    simp only [blockLoop2, List.mem_cons] at h
    obtain ⟨e1, e2⟩ := blockStep2_shape rule b0 b1 g t s
    rcases h with h | h
    · rw [h]; exact blockStep2_rect rule b0 b1 g t s
    · have := ih _ _ _ g' h
      rwa [e1, e2] at this

theorem blockLoop2_getLast_shape [Inhabited α] (rule : BlockRule2 σ α) (b0 b1 k t : Nat) (g : Grid α)
    (s : σ) :
    ((blockLoop2 rule b0 b1 k t g s).1.getLast?.getD g).length = g.length ∧
    gridCols ((blockLoop2 rule b0 b1 k t g s).1.getLast?.getD g) = gridCols g := by
  cases h : (blockLoop2 rule b0 b1 k t g s).1.getLast? with
  | none => exact ⟨rfl, rfl⟩
  | some g' =>
    have := blockLoop2_rect rule b0 b1 k t g s g' (List.mem_of_getLast? h)
    exact ⟨this.1, gridCols_of_rect this⟩

theorem blockLoop2_add [Inhabited α] (rule : BlockRule2 σ α) (b0 b1 k1 k2 t : Nat) (g : Grid α) (s : σ) :
    blockLoop2 rule b0 b1 (k1 + k2) t g s
      = ((blockLoop2 rule b0 b1 k1 t g s).1
          ++ (blockLoop2 rule b0 b1 k2 (t + k1) ((blockLoop2 rule b0 b1 k1 t g s).1.getLast?.getD g)
              (blockLoop2 rule b0 b1 k1 t g s).2).1,
         (blockLoop2 rule b0 b1 k2 (t + k1) ((blockLoop2 rule b0 b1 k1 t g s).1.getLast?.getD g)
              (blockLoop2 rule b0 b1 k1 t g s).2).2) := by
  induction k1 generalizing t g s with
  | zero => simp [blockLoop2]
  | succ k ih =>
    have h : k + 1 + k2 = (k + k2) + 1 := by omega
    rw [h]
    simp only [blockLoop2]
    rw [ih]
    have ht : t + 1 + k = t + (k + 1) := by omega
    rw [ht]
    simp only [List.cons_append, List.getLast?_cons, Option.getD_some]

theorem blockSweep2_timefree [Inhabited α] (rule : BlockRule2 σ α)
    (htf : ∀ s blk t t', rule s blk t = rule s blk t') (layer : Grid α) (t t' : Nat)
    (strides : List (List Nat × List Nat)) (arr : Grid α) (s : σ) :
    blockSweep2 rule layer t strides arr s = blockSweep2 rule layer t' strides arr s := by
  induction strides generalizing arr s with
  | nil => rfl
  | cons st rest ih =>
    obtain ⟨ri, ci⟩ := st
    simp only [blockSweep2]; rw [htf _ _ t t', ih]

/-- For a time-free block rule a 2D step depends on `t` through its parity only. -/
theorem blockStep2_parity [Inhabited α] (rule : BlockRule2 σ α)
    (htf : ∀ s blk t t', rule s blk t = rule s blk t') (b0 b1 : Nat) (layer : Grid α) (t t' : Nat)
    (hpar : t % 2 = t' % 2) (s : σ) :
    blockStep2 rule b0 b1 layer t s = blockStep2 rule b0 b1 layer t' s := by
  simp only [blockStep2, hpar]
  exact blockSweep2_timefree rule htf _ _ _ _ _ _

theorem blockLoop2_parity [Inhabited α] (rule : BlockRule2 σ α)
    (htf : ∀ s blk t t', rule s blk t = rule s blk t') (b0 b1 k : Nat) (g : Grid α) (t t' : Nat)
    (hpar : t % 2 = t' % 2) (s : σ) :
    blockLoop2 rule b0 b1 k t g s = blockLoop2 rule b0 b1 k t' g s := by
  induction k generalizing t t' g s with
  | zero => rfl
  | succ k ih =>
    simp only [blockLoop2]
    rw [blockStep2_parity rule htf b0 b1 g t t' hpar, ih _ (t + 1) (t' + 1) (by omega)]

/-- `evolve2d_block` succeeds exactly when its four guards pass. -/
theorem evolve2dBlock_ok_iff [Inhabited α] (hist : List (Grid α)) (init : Grid α)
    (hlast : hist.getLast? = some init) (b0 b1 T : Nat) (rule : BlockRule2 σ α) (s s' : σ)
    (out : List (Grid α)) :
    evolve2dBlock hist b0 b1 T rule s = .ok (out, s') ↔
      (T ≠ 0 ∧ b0 ≠ 0 ∧ b1 ≠ 0 ∧ init.length % b0 = 0 ∧ gridCols init % b1 = 0 ∧
        out = hist ++ (blockLoop2 rule b0 b1 (T - 1) 1 init s).1 ∧
        s' = (blockLoop2 rule b0 b1 (T - 1) 1 init s).2) := by
  unfold evolve2dBlock
  rw [hlast]
  simp only
  by_cases hT : T = 0
  · simp [hT]
  · rw [if_neg hT]
    by_cases hb : b0 = 0 ∨ b1 = 0
    · rw [if_pos hb]
      constructor
      · intro h; cases h
      · intro h; rcases hb with hb | hb
        · exact absurd hb h.2.1
        · exact absurd hb h.2.2.1
    · rw [if_neg hb]
      by_cases hd : init.length % b0 ≠ 0 ∨ gridCols init % b1 ≠ 0
      · rw [if_pos hd]
        constructor
        · intro h; cases h
        · intro h; rcases hd with hd | hd
          · exact absurd h.2.2.2.1 hd
          · exact absurd h.2.2.2.2.1 hd
      · rw [if_neg hd]
        simp only [Except.ok.injEq, Prod.mk.injEq]
        constructor
        · rintro ⟨h1, h2⟩
          exact ⟨hT, fun h => hb (Or.inl h), fun h => hb (Or.inr h),
            Classical.not_not.mp (fun h => hd (Or.inl h)), Classical.not_not.mp (fun h => hd (Or.inr h)),
            h1.symm, h2.symm⟩
        · rintro ⟨_, _, _, _, _, h1, h2⟩
          exact ⟨h1.symm, h2.symm⟩

/-- `evolve_block` succeeds exactly when its guards pass. -/
theorem evolveBlock_ok_iff [Inhabited α] (hist : List (List α)) (init : List α)
    (hlast : hist.getLast? = some init) (b T : Nat) (rule : BlockRule1 σ α) (s s' : σ)
    (out : List (List α)) :
    evolveBlock hist b T rule s = .ok (out, s') ↔
      (b ≠ 0 ∧ init.length % b = 0 ∧ T ≠ 0 ∧
        out = hist ++ (blockLoop1 rule b (T - 1) 1 init s).1 ∧
        s' = (blockLoop1 rule b (T - 1) 1 init s).2) := by
  unfold evolveBlock
  rw [hlast]
  simp only
  by_cases hb : b = 0
  · simp [hb]
  · rw [if_neg hb]
    by_cases hd : init.length % b ≠ 0
    · rw [if_pos hd]
      constructor
      · intro h; cases h
      · intro h; exact absurd h.2.1 hd
    · rw [if_neg hd]
      by_cases hT : T = 0
      · simp [hT]
      · rw [if_neg hT]
        simp only [Except.ok.injEq, Prod.mk.injEq]
        constructor
        · rintro ⟨h1, h2⟩
          exact ⟨hb, Classical.not_not.mp hd, hT, h1.symm, h2.symm⟩
        · rintro ⟨_, _, _, h1, h2⟩
          exact ⟨h1.symm, h2.symm⟩

end block
end Cpl.Dyn2D
