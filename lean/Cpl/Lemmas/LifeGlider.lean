import Cpl.Lemmas.LifeLocal
import Cpl.Lemmas.LifeViews1
import Cpl.Lemmas.LifeViews2
import Cpl.Lemmas.LifeViews3
import Cpl.Lemmas.LifeViews4

/-! # The glider on every torus of at least 5 × 5 cells. -/

namespace Cpl.Life
open Cpl Cpl.Spec

theorem glider_views : ∀ ρ ∈ views, ∀ κ ∈ views, GliderOK ρ κ := by
  intro ρ hρ
  simp only [views, List.mem_append] at hρ
  rcases hρ with ((((((h | h) | h) | h) | h) | h) | h) | h
  · exact glider_viewsA ρ h
  · exact glider_viewsB ρ h
  · exact glider_viewsC ρ h
  · exact glider_viewsD ρ h
  · exact glider_viewsE ρ h
  · exact glider_viewsF ρ h
  · exact glider_viewsG ρ h
  · exact glider_viewsH ρ h

/-- **The glider on every torus of at least 5 × 5 cells**: four Life steps move it one cell down and one
    cell to the right. -/
theorem glider4 (R C : Nat) (hR : 5 ≤ R) (hC : 5 ≤ C) :
    lifeGrid R C (lifeGrid R C (lifeGrid R C (lifeGrid R C (placeG R C gliderCells))))
      = shiftG R C 1 1 (placeG R C gliderCells) := by
  have hrectL : Rect (lifeGrid R C (lifeGrid R C (lifeGrid R C (lifeGrid R C (placeG R C gliderCells))))) R C :=
    tabulate_rect R C _
  have hrectR : Rect (shiftG R C 1 1 (placeG R C gliderCells)) R C := tabulate_rect R C _
  refine grid_ext_cell hrectL hrectR ?_
  intro i j hi hj
  have h0 := inv_step R C _ i j 0 _ (by omega) (by omega)
    (inv_step R C _ i j 1 _ (by omega) (by omega)
      (inv_step R C _ i j 2 _ (by omega) (by omega)
        (inv_step R C _ i j 3 _ (by omega) (by omega) (inv_base R C i j hR hC))))
  have h1 := h0 0 0 (by omega) (by omega)
  have ei : (i + 0 + R - 0) % R = i := by
    rw [Nat.add_zero, Nat.sub_zero, Nat.add_mod_right, Nat.mod_eq_of_lt hi]
  have ej : (j + 0 + C - 0) % C = j := by
    rw [Nat.add_zero, Nat.sub_zero, Nat.add_mod_right, Nat.mod_eq_of_lt hj]
  rw [ei, ej] at h1
  rw [h1, glider_views _ (viewOf_mem R i hR hi) _ (viewOf_mem C j hC hj)]
  unfold shiftG
  rw [cell_tabulate R C _ hi hj,
    cell_placeG R C _ _ _ (Nat.mod_lt _ (by omega)) (Nat.mod_lt _ (by omega)),
    viewOf_getD R i 3 (by omega), viewOf_getD C j 3 (by omega), G_label]
  have e1 : i + 3 + R - 4 = i + R - 1 % R := by rw [Nat.mod_eq_of_lt (by omega : 1 < R)]; omega
  have e2 : j + 3 + C - 4 = j + C - 1 % C := by rw [Nat.mod_eq_of_lt (by omega : 1 < C)]; omega
  rw [e1, e2]

end Cpl.Life
