import Mathlib.Algebra.BigOperators.Ring.Finset
import Mathlib.Algebra.BigOperators.Intervals
import Mathlib.Algebra.Order.BigOperators.Group.Finset
import Mathlib.Tactic.Ring
import Mathlib.Tactic.Linarith
import Cpl.Spec.Torus
import Cpl.Model.Rules
import Cpl.Lemmas.Evolve2D
import Cpl.Lemmas.Life

/-! # Helper lemmas for C14 (Sandpile = BTW toppling; conservation of grains). -/

namespace Cpl.Sandpile
open Cpl Finset
open Cpl.Life (cell cell_tabulate tabulate_rect idx_mid idx_hi)

/-! ## One step of a rule that keeps no state -/

section
variable {σ α : Type}

theorem cellVals_stateless [Inhabited α] (h : Nbhd2 α → Nat × Nat → Nat → α) (g : Grid α) (R C r : Nat)
    (vn : Bool) (t : Nat) :
    ∀ (cs : List (Nat × Nat)) (s : σ),
      Spec.cellVals (fun u n c t => (h n c t, u)) g R C r vn t cs s
        = (cs.map fun c => h (Spec.nbhd g R C r vn c.1 c.2) c t, s)
  | [], _ => rfl
  | (i, j) :: cs, s => by
    simp only [Spec.cellVals, List.map_cons]
    rw [cellVals_stateless h g R C r vn t cs s]

/-- A stateless rule: the new grid is the rule applied cell by cell to the torus neighbourhoods. -/
theorem step2_stateless [Inhabited α] (h : Nbhd2 α → Nat × Nat → Nat → α) (g : Grid α) (R C r : Nat)
    (vn : Bool) (t : Nat) (s : σ) :
    Spec.step2 (fun u n c t => (h n c t, u)) g R C r vn t s
      = ((List.range R).map fun i => (List.range C).map fun j => h (Spec.nbhd g R C r vn i j) (i, j) t, s) := by
  simp only [Spec.step2]
  rw [cellVals_stateless]
  simp only
  congr 1
  apply List.map_congr_left
  intro i hi
  apply List.map_congr_left
  intro j hj
  have hk := cellsRowMajor_getElem? R C i j (by simpa using hi) (by simpa using hj)
  rw [List.getElem!_eq_getElem?_getD, List.getElem?_map, hk]
  rfl

end

/-! ## The von Neumann `r = 1` neighbourhood -/

theorem nbhd_vn1 (g : Grid Int) (R C i j : Nat) (hi : i < R) (hj : j < C) :
    Spec.nbhd g R C 1 true i j
      = [[none, some (cell g ((i + R - 1) % R) j), none],
         [some (cell g i ((j + C - 1) % C)), some (cell g i j), some (cell g i ((j + 1) % C))],
         [none, some (cell g ((i + 1) % R) j), none]] := by
  have e3 : List.range (2 * 1 + 1) = [0, 1, 2] := by decide
  unfold Spec.nbhd
  rw [e3]
  simp only [List.map_cons, List.map_nil, Spec.dist, Nat.add_zero, idx_mid hi, idx_mid hj,
    idx_hi i (by omega : 1 ≤ R), idx_hi j (by omega : 1 ≤ C)]
  simp [cell]


/-! ## The rule on that neighbourhood -/

/-- 1 if the cell topples (holds at least four grains), else 0. -/
def topples (x : Int) : Int := if 4 ≤ x then 1 else 0

theorem topples_nonneg (x : Int) : 0 ≤ topples x := by unfold topples; split <;> omega

theorem topples_of_lt {x : Int} (h : x < 4) : topples x = 0 := by unfold topples; rw [if_neg (by omega)]

/-- The BTW value: lose four on toppling, gain one per toppling neighbour. -/
def btw (c u d l r : Int) : Int := c - 4 * topples c + topples u + topples d + topples l + topples r

/-- Is `(i, j)` on the rim of the `R × C` grid? -/
def onRim (R C i j : Nat) : Prop := i = 0 ∨ i = R - 1 ∨ j = 0 ∨ j = C - 1

instance (R C i j : Nat) : Decidable (onRim R C i j) := by unfold onRim; infer_instance

theorem rule_explicit (cfg : SandpileCfg) (hK : cfg.K = 4) (u l c r d : Int) (p : Nat × Nat) (t : Nat) :
    sandpileRule cfg [[none, some u, none], [some l, some c, some r], [none, some d, none]] p t
      = if cfg.closed = true ∧ onRim cfg.rows cfg.cols p.1 p.2 then 0
        else if (∃ gr ∈ cfg.grains, gr.2 = t ∧ gr.1 = p) then c + 1
        else btw c u d l r := by
  unfold sandpileRule onRim
  simp only [List.getD_cons_succ, List.getD_cons_zero, Option.getD_some, hK, List.foldl_cons, List.foldl_nil,
    List.any_eq_true, decide_eq_true_eq]
  split
  · rfl
  · split
    · rfl
    · unfold btw topples
      simp only [ge_iff_le, Nat.cast_ofNat]
      split <;> split <;> split <;> split <;> split <;> omega


/-! ## One step of the model -/

/-- Open-torus BTW update of cell `(i, j)`. -/
def btwCell (R C : Nat) (g : Grid Int) (i j : Nat) : Int :=
  btw (cell g i j) (cell g ((i + R - 1) % R) j) (cell g ((i + 1) % R) j)
    (cell g i ((j + C - 1) % C)) (cell g i ((j + 1) % C))

/-- What the model writes into cell `(i, j)` at step `t`. -/
def newCell (cfg : SandpileCfg) (R C : Nat) (g : Grid Int) (t i j : Nat) : Int :=
  if cfg.closed = true ∧ onRim cfg.rows cfg.cols i j then 0
  else if (∃ gr ∈ cfg.grains, gr.2 = t ∧ gr.1 = (i, j)) then cell g i j + 1
  else btwCell R C g i j

theorem specStep_eq (cfg : SandpileCfg) (hK : cfg.K = 4) (g : Grid Int) (R C : Nat) (t : Nat) :
    Spec.step2 (sandpileRule2 cfg) g R C 1 true t ()
      = ((List.range R).map fun i => (List.range C).map fun j => newCell cfg R C g t i j, ()) := by
  show Spec.step2 (fun u n c t => (sandpileRule cfg n c t, u)) g R C 1 true t () = _
  rw [step2_stateless]
  congr 1
  apply List.map_congr_left
  intro i hi
  apply List.map_congr_left
  intro j hj
  rw [nbhd_vn1 g R C i j (by simpa using hi) (by simpa using hj), rule_explicit cfg hK]
  rfl

theorem step_eq (cfg : SandpileCfg) (hK : cfg.K = 4) (g : Grid Int) (R C : Nat) (hg : Spec.Rect g R C)
    (hR : 1 ≤ R) (hC : 1 ≤ C) (t : Nat) (cs : Caches2 Int) :
    Cpl.step2 .plain (sandpileRule2 cfg) 1 true g t cs ()
      = ((List.range R).map fun i => (List.range C).map fun j => newCell cfg R C g t i j, cs, ()) := by
  rw [step2_plain (sandpileRule2 cfg) g R C 1 true t cs () hg hR hR hC, specStep_eq cfg hK]


/-! ## Totals -/

/-- Sum of all cells. -/
def total (g : Grid Int) : Int := (g.map List.sum).sum

theorem list_sum_range (n : Nat) (f : Nat → Int) : ((List.range n).map f).sum = ∑ i ∈ range n, f i := by
  induction n with
  | zero => simp
  | succ n ih => rw [List.range_succ, List.map_append, List.sum_append, ih, sum_range_succ]; simp

theorem total_tab (R C : Nat) (F : Nat → Nat → Int) :
    total ((List.range R).map fun i => (List.range C).map fun j => F i j)
      = ∑ i ∈ range R, ∑ j ∈ range C, F i j := by
  unfold total
  rw [List.map_map, list_sum_range]
  apply sum_congr rfl
  intro i _
  exact list_sum_range C (F i)

/-- A rectangular grid is the table of its cells. -/
theorem tab_cell {g : Grid Int} {R C : Nat} (hg : Spec.Rect g R C) :
    ((List.range R).map fun i => (List.range C).map fun j => cell g i j) = g := by
  apply grid_ext (tabulate_rect R C _) hg
  intro i j hi hj
  have hi' : i < g.length := by rw [hg.1]; exact hi
  have hlen : (g[i]).length = C := hg.2 _ (List.getElem_mem hi')
  unfold cellAt?
  rw [List.getElem?_map, List.getElem?_range hi, List.getElem?_eq_getElem hi']
  simp only [Option.map_some, Option.bind_some]
  rw [List.getElem?_map, List.getElem?_range hj, List.getElem?_eq_getElem (by rw [hlen]; exact hj)]
  simp only [Option.map_some, cell]
  rw [getElem!_pos g i hi', getElem!_pos (g[i]) j (by rw [hlen]; exact hj)]

theorem total_rect {g : Grid Int} {R C : Nat} (hg : Spec.Rect g R C) :
    total g = ∑ i ∈ range R, ∑ j ∈ range C, cell g i j := by
  rw [← total_tab, tab_cell hg]

/-! ## Cyclic reindexing -/

theorem sum_shift_succ (R : ℕ) (f : ℕ → ℤ) : ∑ i ∈ range R, f ((i + 1) % R) = ∑ i ∈ range R, f i := by
  cases R with
  | zero => simp
  | succ n =>
    rw [sum_range_succ, sum_range_succ' (fun i => f i)]
    simp only [Nat.mod_self]
    congr 1
    apply sum_congr rfl
    intro i hi
    rw [Nat.mod_eq_of_lt (by simp at hi; omega)]

theorem sum_shift_pred (R : ℕ) (f : ℕ → ℤ) : ∑ i ∈ range R, f ((i + R - 1) % R) = ∑ i ∈ range R, f i := by
  rw [← sum_shift_succ R (fun i => f ((i + R - 1) % R))]
  apply sum_congr rfl
  intro i hi
  simp at hi
  congr 1
  by_cases h : i + 1 < R
  · rw [Nat.mod_eq_of_lt h]
    have : i + 1 + R - 1 = i + R := by omega
    rw [this, Nat.add_mod_right, Nat.mod_eq_of_lt hi]
  · have : i + 1 = R := by omega
    rw [this, Nat.mod_self]
    have : 0 + R - 1 = i := by omega
    rw [this, Nat.mod_eq_of_lt hi]

/-- **Conservation on the torus**: every toppling cell hands its four grains to four (not necessarily
    distinct) cells of the torus; summing the BTW update over all cells gives the old total. -/
theorem conserve (R C : ℕ) (g : ℕ → ℕ → ℤ) :
    ∑ i ∈ range R, ∑ j ∈ range C,
      btw (g i j) (g ((i + R - 1) % R) j) (g ((i + 1) % R) j) (g i ((j + C - 1) % C)) (g i ((j + 1) % C))
    = ∑ i ∈ range R, ∑ j ∈ range C, g i j := by
  unfold btw
  simp only [sum_add_distrib, sum_sub_distrib]
  have a := sum_shift_pred R (fun i => ∑ j ∈ range C, topples (g i j))
  have b := sum_shift_succ R (fun i => ∑ j ∈ range C, topples (g i j))
  have c : ∑ i ∈ range R, ∑ j ∈ range C, topples (g i ((j + C - 1) % C))
      = ∑ i ∈ range R, ∑ j ∈ range C, topples (g i j) :=
    sum_congr rfl fun i _ => sum_shift_pred C (fun j => topples (g i j))
  have d : ∑ i ∈ range R, ∑ j ∈ range C, topples (g i ((j + 1) % C))
      = ∑ i ∈ range R, ∑ j ∈ range C, topples (g i j) :=
    sum_congr rfl fun i _ => sum_shift_succ C (fun j => topples (g i j))
  rw [a, b, c, d]
  have e : ∑ x ∈ range R, ∑ x_1 ∈ range C, 4 * topples (g x x_1)
      = 4 * ∑ i ∈ range R, ∑ j ∈ range C, topples (g i j) := by
    rw [mul_sum]; apply sum_congr rfl; intro i _; rw [mul_sum]
  rw [e]; ring

theorem total_btw (R C : Nat) (g : Grid Int) :
    total ((List.range R).map fun i => (List.range C).map fun j => btwCell R C g i j)
      = ∑ i ∈ range R, ∑ j ∈ range C, cell g i j := by
  rw [total_tab]
  exact conserve R C (cell g)


/-! ## Cases of the new cell value -/

theorem newCell_open (cfg : SandpileCfg) (hopen : cfg.closed = false) (R C : Nat) (g : Grid Int) (t i j : Nat)
    (hng : ∀ gr ∈ cfg.grains, gr.2 ≠ t) : newCell cfg R C g t i j = btwCell R C g i j := by
  unfold newCell
  rw [if_neg (by simp [hopen]), if_neg (by rintro ⟨gr, hm, h1, _⟩; exact hng gr hm h1)]

theorem newCell_rim (cfg : SandpileCfg) (hcl : cfg.closed = true) (R C : Nat) (g : Grid Int) (t i j : Nat)
    (hrim : onRim cfg.rows cfg.cols i j) : newCell cfg R C g t i j = 0 := by
  unfold newCell
  rw [if_pos ⟨hcl, hrim⟩]

theorem newCell_inner (cfg : SandpileCfg) (R C : Nat) (g : Grid Int) (t i j : Nat)
    (hrim : ¬ onRim cfg.rows cfg.cols i j) (hng : ∀ gr ∈ cfg.grains, gr.2 ≠ t) :
    newCell cfg R C g t i j = btwCell R C g i j := by
  unfold newCell
  rw [if_neg (fun h => hrim h.2), if_neg (by rintro ⟨gr, hm, h1, _⟩; exact hng gr hm h1)]

theorem newCell_grain (cfg : SandpileCfg) (R C : Nat) (g : Grid Int) (t i j : Nat)
    (hrim : cfg.closed = true → ¬ onRim cfg.rows cfg.cols i j) (hgr : ((i, j), t) ∈ cfg.grains) :
    newCell cfg R C g t i j = cell g i j + 1 := by
  unfold newCell
  rw [if_neg (fun h => hrim h.1 h.2), if_pos ⟨_, hgr, rfl, rfl⟩]

theorem newCell_other (cfg : SandpileCfg) (R C : Nat) (g : Grid Int) (t i j : Nat)
    (hrim : ¬ onRim cfg.rows cfg.cols i j) (hng : ∀ gr ∈ cfg.grains, gr.2 = t → gr.1 ≠ (i, j)) :
    newCell cfg R C g t i j = btwCell R C g i j := by
  unfold newCell
  rw [if_neg (fun h => hrim h.2), if_neg (by rintro ⟨gr, hm, h1, h2⟩; exact hng gr hm h1 h2)]

/-- Below the threshold nothing moves. -/
theorem btwCell_stable (R C : Nat) (g : Grid Int) (hs : ∀ i j, i < R → j < C → cell g i j < 4) (i j : Nat)
    (hi : i < R) (hj : j < C) : btwCell R C g i j = cell g i j := by
  have hR : 0 < R := by omega
  have hC : 0 < C := by omega
  unfold btwCell btw
  rw [topples_of_lt (hs _ _ hi hj), topples_of_lt (hs _ _ (Nat.mod_lt _ hR) hj),
    topples_of_lt (hs _ _ (Nat.mod_lt _ hR) hj), topples_of_lt (hs _ _ hi (Nat.mod_lt _ hC)),
    topples_of_lt (hs _ _ hi (Nat.mod_lt _ hC))]
  omega

/-- With a closed boundary a rim cell holding 0 would, on the torus, only have gained. -/
theorem newCell_le_btwCell (cfg : SandpileCfg) (R C : Nat) (g : Grid Int) (t i j : Nat)
    (hrim0 : onRim cfg.rows cfg.cols i j → cell g i j = 0) (hng : ∀ gr ∈ cfg.grains, gr.2 ≠ t) :
    newCell cfg R C g t i j ≤ btwCell R C g i j := by
  by_cases hrim : cfg.closed = true ∧ onRim cfg.rows cfg.cols i j
  · unfold newCell
    rw [if_pos hrim]
    unfold btwCell btw
    rw [hrim0 hrim.2]
    have h1 := topples_nonneg (cell g ((i + R - 1) % R) j)
    have h2 := topples_nonneg (cell g ((i + 1) % R) j)
    have h3 := topples_nonneg (cell g i ((j + C - 1) % C))
    have h4 := topples_nonneg (cell g i ((j + 1) % C))
    have h5 : topples 0 = 0 := by decide
    omega
  · unfold newCell
    rw [if_neg hrim, if_neg (by rintro ⟨gr, hm, h1, _⟩; exact hng gr hm h1)]

theorem total_new_le (cfg : SandpileCfg) (R C : Nat) (g : Grid Int) (t : Nat)
    (hrim0 : ∀ i j, i < R → j < C → onRim cfg.rows cfg.cols i j → cell g i j = 0)
    (hng : ∀ gr ∈ cfg.grains, gr.2 ≠ t) :
    total ((List.range R).map fun i => (List.range C).map fun j => newCell cfg R C g t i j)
      ≤ ∑ i ∈ range R, ∑ j ∈ range C, cell g i j := by
  rw [← total_btw R C g, total_tab, total_tab]
  apply sum_le_sum
  intro i hi
  apply sum_le_sum
  intro j hj
  exact newCell_le_btwCell cfg R C g t i j (hrim0 i j (by simpa using hi) (by simpa using hj)) hng


/-! ## Whole grids -/

/-- The open-torus BTW update of the whole grid. -/
def btwGrid (R C : Nat) (g : Grid Int) : Grid Int :=
  (List.range R).map fun i => (List.range C).map fun j => btwCell R C g i j

/-- The BTW update with the rim held at 0. -/
def closedGrid (R C : Nat) (g : Grid Int) : Grid Int :=
  (List.range R).map fun i => (List.range C).map fun j => if onRim R C i j then 0 else btwCell R C g i j

theorem newGrid_open (cfg : SandpileCfg) (hopen : cfg.closed = false) (R C : Nat) (g : Grid Int) (t : Nat)
    (hng : ∀ gr ∈ cfg.grains, gr.2 ≠ t) :
    ((List.range R).map fun i => (List.range C).map fun j => newCell cfg R C g t i j) = btwGrid R C g := by
  unfold btwGrid
  apply List.map_congr_left
  intro i _
  apply List.map_congr_left
  intro j _
  exact newCell_open cfg hopen R C g t i j hng

theorem newGrid_closed (cfg : SandpileCfg) (hcl : cfg.closed = true) (R C : Nat) (hrows : cfg.rows = R)
    (hcols : cfg.cols = C) (g : Grid Int) (t : Nat) (hng : ∀ gr ∈ cfg.grains, gr.2 ≠ t) :
    ((List.range R).map fun i => (List.range C).map fun j => newCell cfg R C g t i j) = closedGrid R C g := by
  unfold closedGrid
  apply List.map_congr_left
  intro i _
  apply List.map_congr_left
  intro j _
  by_cases hrim : onRim R C i j
  · rw [if_pos hrim]
    exact newCell_rim cfg hcl R C g t i j (by rw [hrows, hcols]; exact hrim)
  · rw [if_neg hrim]
    exact newCell_inner cfg R C g t i j (by rw [hrows, hcols]; exact hrim) hng

theorem closedGrid_rim (R C : Nat) (g : Grid Int) (i j : Nat) (hi : i < R) (hj : j < C) (hrim : onRim R C i j) :
    cell (closedGrid R C g) i j = 0 := by
  unfold closedGrid
  rw [cell_tabulate R C _ hi hj, if_pos hrim]

theorem closedGrid_total_le (R C : Nat) (g : Grid Int) (hg : Spec.Rect g R C)
    (hrim0 : ∀ i j, i < R → j < C → onRim R C i j → cell g i j = 0) :
    total (closedGrid R C g) ≤ total g := by
  have h := total_new_le { rows := R, cols := C, closed := true, grains := [] } R C g 0 hrim0 (by simp)
  rw [newGrid_closed { rows := R, cols := C, closed := true, grains := [] } rfl R C rfl rfl g 0 (by simp)] at h
  rw [total_rect hg]
  exact h

end Cpl.Sandpile
