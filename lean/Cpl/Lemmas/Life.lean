import Cpl.Spec.Torus
import Cpl.Model.Rules
import Cpl.Lemmas.Evolve2D

/-! # Helper lemmas for C11 (Game of Life rule = Conway's B3/S23 on the torus). -/

namespace Cpl.Life
open Cpl Cpl.Spec

/-- Conway's rule: birth on exactly 3 live neighbours, survival on 2 or 3. -/
def b3s23 (c nbrs : Int) : Int :=
  if c = 0 then (if nbrs = 3 then 1 else 0) else (if nbrs = 2 ∨ nbrs = 3 then 1 else 0)

/-- `g[i][j]`. -/
def cell (g : Grid Int) (i j : Nat) : Int := (g[i]!)[j]!

theorem b3s23_binary (c s : Int) : b3s23 c s = 0 ∨ b3s23 c s = 1 := by
  unfold b3s23
  split <;> split <;> simp

/-- The rule on an explicit binary 3×3 block (case split on the centre only; the rest is linear
    arithmetic on the total). -/
theorem gol_explicit (a b c d e f g h i : Int)
    (ha : a = 0 ∨ a = 1) (hb : b = 0 ∨ b = 1) (hc : c = 0 ∨ c = 1) (hd : d = 0 ∨ d = 1)
    (he : e = 0 ∨ e = 1) (hf : f = 0 ∨ f = 1) (hg : g = 0 ∨ g = 1) (hh : h = 0 ∨ h = 1)
    (hi : i = 0 ∨ i = 1) :
    golRule [[a, b, c], [d, e, f], [g, h, i]] = some (b3s23 e (a + b + c + d + f + g + h + i)) := by
  have h0 : 0 ≤ a + b + c + d + f + g + h + i := by omega
  have h8 : a + b + c + d + f + g + h + i ≤ 8 := by omega
  generalize hS : a + b + c + d + f + g + h + i = S at h0 h8
  unfold golRule b3s23
  simp only [List.flatten_cons, List.flatten_nil, List.cons_append, List.nil_append, List.foldl_cons,
    List.foldl_nil, List.getD_cons_succ, List.getD_cons_zero]
  rcases he with rfl | rfl
  · have ht : 0 + a + b + c + d + 0 + f + g + h + i = S := by omega
    simp only [ht]
    by_cases h3 : S = 3 <;> simp [h3]
  · have ht : 0 + a + b + c + d + 1 + f + g + h + i - 1 = S := by omega
    simp only [ht]
    simp only [if_true, show ¬ ((1 : Int) = 0) by decide, if_false]
    by_cases h1 : S < 2
    · have : ¬ (S = 2 ∨ S = 3) := by omega
      simp [h1, this]
    · by_cases h2 : S = 2 ∨ S = 3
      · simp [h1, h2]
      · have : S > 3 := by omega
        simp [h1, h2, this]


theorem list3 {α : Type} (l : List α) (h : l.length = 3) : ∃ a b c, l = [a, b, c] := by
  rcases l with _ | ⟨a, _ | ⟨b, _ | ⟨c, _ | ⟨d, l⟩⟩⟩⟩ <;> simp at h
  exact ⟨a, b, c, rfl⟩

/-- The rule on any binary 3×3 nested list. -/
theorem gol_bin3 (n : Grid Int)
    (hn : n.length = 3 ∧ ∀ row ∈ n, row.length = 3 ∧ ∀ x ∈ row, x = 0 ∨ x = 1) :
    golRule n = some (b3s23 (cell n 1 1)
      (cell n 0 0 + cell n 0 1 + cell n 0 2 + cell n 1 0 + cell n 1 2 + cell n 2 0 + cell n 2 1 + cell n 2 2)) := by
  obtain ⟨hl, hrows⟩ := hn
  obtain ⟨r0, r1, r2, rfl⟩ := list3 n hl
  obtain ⟨a, b, c, rfl⟩ := list3 r0 (hrows _ (by simp)).1
  obtain ⟨d, e, f, rfl⟩ := list3 r1 (hrows _ (by simp)).1
  obtain ⟨g, h, i, rfl⟩ := list3 r2 (hrows _ (by simp)).1
  have h0 := (hrows [a, b, c] (by simp)).2
  have h1 := (hrows [d, e, f] (by simp)).2
  have h2 := (hrows [g, h, i] (by simp)).2
  exact gol_explicit a b c d e f g h i (h0 a (by simp)) (h0 b (by simp)) (h0 c (by simp))
    (h1 d (by simp)) (h1 e (by simp)) (h1 f (by simp)) (h2 g (by simp)) (h2 h (by simp)) (h2 i (by simp))

/-! ## Index arithmetic on a ring of length `n` -/

theorem idx_mid {n i : Nat} (h : i < n) : (i + 1 + n - 1) % n = i := by
  have : i + 1 + n - 1 = i + n := by omega
  rw [this, Nat.add_mod_right, Nat.mod_eq_of_lt h]

theorem idx_hi {n : Nat} (i : Nat) (h : 1 ≤ n) : (i + 2 + n - 1) % n = (i + 1) % n := by
  have : i + 2 + n - 1 = i + 1 + n := by omega
  rw [this, Nat.add_mod_right]

/-- Shifting an index by `k` commutes with stepping forward. -/
theorem shift_succ (n i k : Nat) : ((i + 1) % n + k) % n = ((i + k) % n + 1) % n := by
  rw [Nat.mod_add_mod, Nat.mod_add_mod]; congr 1; omega

/-- Shifting an index by `k` commutes with stepping backward. -/
theorem shift_pred (n i k : Nat) (h : 1 ≤ n) : ((i + n - 1) % n + k) % n = ((i + k) % n + n - 1) % n := by
  have e : (i + k) % n + n - 1 = (i + k) % n + (n - 1) := by omega
  rw [e, Nat.mod_add_mod, Nat.mod_add_mod]; congr 1; omega

/-! ## Binary rectangular grids -/

/-- Every cell is 0 or 1. -/
def Binary (g : Grid Int) : Prop := ∀ row ∈ g, ∀ x ∈ row, x = 0 ∨ x = 1

theorem cell_binary {g : Grid Int} {R C : Nat} (hg : Rect g R C) (hb : Binary g) {i j : Nat}
    (hi : i < R) (hj : j < C) : cell g i j = 0 ∨ cell g i j = 1 := by
  unfold cell
  have hi' : i < g.length := by rw [hg.1]; exact hi
  have hrow : g[i] ∈ g := List.getElem_mem hi'
  have hlen : (g[i]).length = C := hg.2 _ hrow
  rw [getElem!_pos g i hi', getElem!_pos (g[i]) j (by rw [hlen]; exact hj)]
  exact hb _ hrow _ (List.getElem_mem _)

/-- Also out of range (`[]!` reads as 0). -/
theorem cell_binary' {g : Grid Int} (hb : Binary g) (i j : Nat) : cell g i j = 0 ∨ cell g i j = 1 := by
  unfold cell
  rw [List.getElem!_eq_getElem?_getD, List.getElem!_eq_getElem?_getD]
  cases hi : g[i]? with
  | none => left; rfl
  | some row =>
    have hrow : row ∈ g := List.mem_of_getElem? hi
    simp only [Option.getD_some]
    cases hj : row[j]? with
    | none => left; rfl
    | some x => exact hb row hrow x (List.mem_of_getElem? hj)

/-- The cell `(i, j)` of a grid given by a formula. -/
theorem cell_tabulate (R C : Nat) (F : Nat → Nat → Int) {i j : Nat} (hi : i < R) (hj : j < C) :
    cell ((List.range R).map fun i => (List.range C).map fun j => F i j) i j = F i j := by
  unfold cell
  rw [getElem!_pos _ i (by simpa using hi)]
  simp only [List.getElem_map, List.getElem_range]
  rw [getElem!_pos _ j (by simpa using hj)]
  simp

theorem tabulate_rect {α : Type} (R C : Nat) (F : Nat → Nat → α) :
    Rect ((List.range R).map fun i => (List.range C).map fun j => F i j) R C := by
  constructor
  · simp
  · intro row hrow
    simp only [List.mem_map, List.mem_range] at hrow
    obtain ⟨i, _, rfl⟩ := hrow
    simp

theorem tabulate_binary (R C : Nat) (F : Nat → Nat → Int) (h : ∀ i j, F i j = 0 ∨ F i j = 1) :
    Binary ((List.range R).map fun i => (List.range C).map fun j => F i j) := by
  intro row hrow x hx
  simp only [List.mem_map, List.mem_range] at hrow
  obtain ⟨i, _, rfl⟩ := hrow
  simp only [List.mem_map, List.mem_range] at hx
  obtain ⟨j, _, rfl⟩ := hx
  exact h i j

/-! ## The Life update of one cell of the torus -/

/-- New value of cell `(i, j)`: B3/S23 of the cell and the sum of its eight torus neighbours. -/
def lifeCell (R C : Nat) (g : Grid Int) (i j : Nat) : Int :=
  b3s23 (cell g i j)
    (cell g ((i + R - 1) % R) ((j + C - 1) % C) + cell g ((i + R - 1) % R) j
      + cell g ((i + R - 1) % R) ((j + 1) % C)
      + cell g i ((j + C - 1) % C) + cell g i ((j + 1) % C)
      + cell g ((i + 1) % R) ((j + C - 1) % C) + cell g ((i + 1) % R) j
      + cell g ((i + 1) % R) ((j + 1) % C))

/-- The values of the Moore `r = 1` neighbourhood, as the code hands them to the rule. -/
theorem nbhd_moore1 (g : Grid Int) (R C i j : Nat) (hi : i < R) (hj : j < C) :
    (nbhd g R C 1 false i j).map (·.map (·.getD 0))
      = [[cell g ((i + R - 1) % R) ((j + C - 1) % C), cell g ((i + R - 1) % R) j,
            cell g ((i + R - 1) % R) ((j + 1) % C)],
         [cell g i ((j + C - 1) % C), cell g i j, cell g i ((j + 1) % C)],
         [cell g ((i + 1) % R) ((j + C - 1) % C), cell g ((i + 1) % R) j,
            cell g ((i + 1) % R) ((j + 1) % C)]] := by
  have e3 : List.range (2 * 1 + 1) = [0, 1, 2] := by decide
  unfold nbhd
  rw [e3]
  simp only [List.map_cons, List.map_nil, Bool.false_eq_true, false_and, if_false, Option.getD_some,
    Nat.add_zero, idx_mid hi, idx_mid hj, idx_hi i (by omega : 1 ≤ R), idx_hi j (by omega : 1 ≤ C)]
  rfl

/-- The model's rule applied to the torus neighbourhood of a binary grid is the Life update of that cell. -/
theorem gol_nbhd (d : Int) (g : Grid Int) (R C i j : Nat) (hg : Rect g R C) (hb : Binary g) (hi : i < R)
    (hj : j < C) :
    (golRule ((nbhd g R C 1 false i j).map (·.map (·.getD 0)))).getD d = lifeCell R C g i j := by
  have hR : 0 < R := by omega
  have hC : 0 < C := by omega
  rw [nbhd_moore1 g R C i j hi hj,
    gol_explicit _ _ _ _ _ _ _ _ _
      (cell_binary hg hb (Nat.mod_lt _ hR) (Nat.mod_lt _ hC)) (cell_binary hg hb (Nat.mod_lt _ hR) hj)
      (cell_binary hg hb (Nat.mod_lt _ hR) (Nat.mod_lt _ hC))
      (cell_binary hg hb hi (Nat.mod_lt _ hC)) (cell_binary hg hb hi hj) (cell_binary hg hb hi (Nat.mod_lt _ hC))
      (cell_binary hg hb (Nat.mod_lt _ hR) (Nat.mod_lt _ hC)) (cell_binary hg hb (Nat.mod_lt _ hR) hj)
      (cell_binary hg hb (Nat.mod_lt _ hR) (Nat.mod_lt _ hC))]
  rfl

/-- One pure step with the Game of Life rule is the cell-wise Life update. -/
theorem pureStep2_gol (d : Int) (g : Grid Int) (R C : Nat) (hg : Rect g R C) (hb : Binary g) :
    pureStep2 (fun n => (golRule (n.map (·.map (·.getD 0)))).getD d) R C 1 false g
      = (List.range R).map fun i => (List.range C).map fun j => lifeCell R C g i j := by
  unfold pureStep2
  apply List.map_congr_left
  intro i hi
  apply List.map_congr_left
  intro j hj
  exact gol_nbhd d g R C i j hg hb (by simpa using hi) (by simpa using hj)

/-! ## Translation -/

/-- Translate the torus by `(dx, dy)`: the content of cell `(i, j)` moves to `(i + dx, j + dy)`. -/
def shiftG (R C dx dy : Nat) (g : Grid Int) : Grid Int :=
  (List.range R).map fun i => (List.range C).map fun j =>
    cell g ((i + R - dx % R) % R) ((j + C - dy % C) % C)

theorem sub_mod_eq (n i d : Nat) (h : 0 < n) : i + n - d % n = i + (n - d % n) := by
  have := Nat.mod_lt d h
  omega

/-- The Life update commutes with translations of the torus, cell by cell. -/
theorem lifeCell_shift (R C dx dy : Nat) (g : Grid Int) (i j : Nat) (hi : i < R) (hj : j < C) :
    lifeCell R C (shiftG R C dx dy g) i j
      = lifeCell R C g ((i + R - dx % R) % R) ((j + C - dy % C) % C) := by
  have hR : 0 < R := by omega
  have hC : 0 < C := by omega
  have hc : ∀ a b, a < R → b < C →
      cell (shiftG R C dx dy g) a b = cell g ((a + R - dx % R) % R) ((b + C - dy % C) % C) :=
    fun a b ha hb => cell_tabulate R C _ ha hb
  unfold lifeCell
  rw [hc _ _ hi hj, hc _ _ (Nat.mod_lt _ hR) (Nat.mod_lt _ hC), hc _ _ (Nat.mod_lt _ hR) hj,
    hc _ _ (Nat.mod_lt _ hR) (Nat.mod_lt _ hC), hc _ _ hi (Nat.mod_lt _ hC), hc _ _ hi (Nat.mod_lt _ hC),
    hc _ _ (Nat.mod_lt _ hR) (Nat.mod_lt _ hC), hc _ _ (Nat.mod_lt _ hR) hj,
    hc _ _ (Nat.mod_lt _ hR) (Nat.mod_lt _ hC)]
  simp only [sub_mod_eq _ _ _ hR, sub_mod_eq _ _ _ hC]
  rw [shift_succ R i, shift_succ C j, shift_pred R i _ hR, shift_pred C j _ hC]

/-- The whole grid of cell updates. -/
def lifeGrid (R C : Nat) (g : Grid Int) : Grid Int :=
  (List.range R).map fun i => (List.range C).map fun j => lifeCell R C g i j

theorem lifeGrid_shift (R C dx dy : Nat) (g : Grid Int) :
    lifeGrid R C (shiftG R C dx dy g) = shiftG R C dx dy (lifeGrid R C g) := by
  show ((List.range R).map fun i => (List.range C).map fun j => lifeCell R C (shiftG R C dx dy g) i j)
    = (List.range R).map fun i => (List.range C).map fun j =>
        cell (lifeGrid R C g) ((i + R - dx % R) % R) ((j + C - dy % C) % C)
  apply List.map_congr_left
  intro i hi
  apply List.map_congr_left
  intro j hj
  have hi : i < R := by simpa using hi
  have hj : j < C := by simpa using hj
  rw [lifeCell_shift R C dx dy g i j hi hj]
  unfold lifeGrid
  rw [cell_tabulate R C _ (Nat.mod_lt _ (by omega)) (Nat.mod_lt _ (by omega))]

/-- Two translations commute. -/
theorem shiftG_comm (R C dx dy ex ey : Nat) (g : Grid Int) :
    shiftG R C dx dy (shiftG R C ex ey g) = shiftG R C ex ey (shiftG R C dx dy g) := by
  unfold shiftG
  apply List.map_congr_left
  intro i hi
  apply List.map_congr_left
  intro j hj
  have hi : i < R := by simpa using hi
  have hj : j < C := by simpa using hj
  have hR : 0 < R := by omega
  have hC : 0 < C := by omega
  rw [cell_tabulate R C _ (Nat.mod_lt _ hR) (Nat.mod_lt _ hC),
    cell_tabulate R C _ (Nat.mod_lt _ hR) (Nat.mod_lt _ hC)]
  simp only [sub_mod_eq _ _ _ hR, sub_mod_eq _ _ _ hC, Nat.mod_add_mod]
  congr 2 <;> omega

end Cpl.Life

