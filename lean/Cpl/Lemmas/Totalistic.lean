import Cpl.Model.Rules
import Cpl.Lemmas.Digits

/-!
# Helper lemmas for C08 (`totalistic_rule`): the zero-padded base-`k` digit string and the
size / sum of a masked neighbourhood.
-/

namespace Cpl.Totalistic
open Py Cpl

/-- `l[i]` for an in-range natural index. -/
theorem getIdx_nat {α} (l : List α) (i : Nat) (hi : i < l.length) :
    getIdx l (i : Int) = .ok l[i] := by
  unfold getIdx
  have h0 : ¬ ((i : Int) < 0) := by omega
  simp only [h0, if_false]
  simp [hi]

theorem padLeft_length {α} (w : Nat) (x : α) (l : List α) :
    (padLeft w x l).length = max w l.length := by
  unfold padLeft; simp; omega

/-- The rule string `base_repr(rule, k).zfill(w)` for a rule number below `k^w`: exactly `w` digits,
    whose `i`-th entry (from the left) is the digit with place value `k^(w-1-i)`. -/
theorem ruleString_ok (k rule w : Nat) (hk : 2 ≤ k) (hw : 1 ≤ w) (h : rule < k ^ w) :
    (padLeft w 0 (baseDigits k rule)).length = w ∧
    ∀ i (hi : i < (padLeft w 0 (baseDigits k rule)).length),
      (padLeft w 0 (baseDigits k rule))[i] = rule / k ^ (w - 1 - i) % k := by
  have hlen : (baseDigits k rule).length ≤ w := (baseDigits_length_le_iff k rule w hk hw).mpr h
  have hL : (padLeft w 0 (baseDigits k rule)).length = w := by
    rw [padLeft_length]; omega
  refine ⟨hL, ?_⟩
  intro i hi
  have hlt : ∀ d ∈ padLeft w 0 (baseDigits k rule), d < k := by
    intro d hd
    unfold padLeft at hd
    rw [List.mem_append] at hd
    rcases hd with hd | hd
    · rw [List.eq_of_mem_replicate hd]; omega
    · exact baseDigits_lt k hk rule d hd
  have hval : ofDigitsBE k (padLeft w 0 (baseDigits k rule)) = rule := by
    unfold padLeft
    rw [ofDigitsBE_replicate_zero_append]; exact baseDigits_value k hk rule
  have key := ofDigitsBE_getElem k hk _ hlt i hi
  rw [hval, hL] at key
  exact key

/-- A rule number of at least `k^w` has more than `w` digits, also after padding. -/
theorem ruleString_long (k rule w : Nat) (hk : 2 ≤ k) (hw : 1 ≤ w) (h : k ^ w ≤ rule) :
    w < (padLeft w 0 (baseDigits k rule)).length := by
  have : ¬ (baseDigits k rule).length ≤ w := by
    rw [baseDigits_length_le_iff k rule w hk hw]; omega
  rw [padLeft_length]; omega

/-! ## size and sum of a neighbourhood -/

theorem foldl_add_nat (l : List Nat) : ∀ a : Nat, l.foldl (· + ·) a = a + l.sum := by
  induction l with
  | nil => intro a; simp
  | cons x xs ih => intro a; rw [List.foldl_cons, ih, List.sum_cons]; omega

theorem foldl_add_int (l : List Int) : ∀ a : Int, l.foldl (· + ·) a = a + l.sum := by
  induction l with
  | nil => intro a; simp
  | cons x xs ih => intro a; rw [List.foldl_cons, ih, List.sum_cons]; omega

theorem nbSize_eq (n : Nbhd2 Int) : nbSize n = n.flatten.length := by
  unfold nbSize
  rw [foldl_add_nat, List.length_flatten]; simp

theorem nbSum_eq (n : Nbhd2 Int) : nbSum n = (n.flatten.filterMap id).sum := by
  unfold nbSum
  rw [foldl_add_int]; simp

/-- A list of integers in `0..k-1` sums to between `0` and `length * (k-1)`. -/
theorem sum_bounds (k : Nat) (l : List Int) (h : ∀ x ∈ l, 0 ≤ x ∧ x < k) :
    0 ≤ l.sum ∧ l.sum ≤ ((l.length * (k - 1) : Nat) : Int) := by
  induction l with
  | nil => simp
  | cons x xs ih =>
    have hx := h x (by simp)
    have := ih (fun y hy => h y (by simp [hy]))
    rw [List.sum_cons, List.length_cons, Nat.add_mul, Nat.one_mul]
    push_cast
    have hk : ((k - 1 : Nat) : Int) = (k : Int) - 1 := by omega
    constructor
    · omega
    · have h2 := this.2
      push_cast at h2
      omega

theorem filterMap_id_length_le {α} (l : List (Option α)) : (l.filterMap id).length ≤ l.length :=
  List.length_filterMap_le id l

end Cpl.Totalistic
