import Cpl.Spec.Ring

/-!
# Helper lemmas about the 1D evolution model (shared by C01, C03, C05, C06, C09).
-/

namespace Cpl
open Py

/-! ## `_index_strides` -/

theorem fdiv_neg_window (r : Nat) : fdiv (-(2 * (r : Int) + 1)) 2 + 1 = -(r : Int) := by
  unfold fdiv
  rw [Int.fdiv_eq_ediv_of_nonneg _ (by omega)]; omega

theorem fdiv_pos_window (r : Nat) : fdiv (2 * (r : Int) + 1) 2 = (r : Int) := by
  unfold fdiv
  rw [Int.fdiv_eq_ediv_of_nonneg _ (by omega)]; omega

theorem sliceFrom_range_neg (N r : Nat) (h1 : 1 ≤ r) (_h2 : r ≤ N) :
    sliceFrom (List.range N) (-(r : Int)) = (List.range N).drop (N - r) := by
  simp only [sliceFrom, List.length_range]
  have : (if -(r : Int) < 0 then max ((N : Int) + -(r : Int)) 0 else min (-(r : Int)) N).toNat
      = N - r := by
    have : -(r : Int) < 0 := by omega
    simp only [this, if_true]; omega
  rw [this]

theorem sliceTo_range_pos (N r : Nat) (h2 : r ≤ N) :
    sliceTo (List.range N) (r : Int) = (List.range N).take r := by
  simp only [sliceTo, List.length_range]
  have : (if (r : Int) < 0 then max ((N : Int) + (r : Int)) 0 else min (r : Int) N).toNat = r := by
    have : ¬ (r : Int) < 0 := by omega
    simp only [this, if_false]; omega
  rw [this]

/-- The extended index array `arr[-r:] ++ arr ++ arr[:r]`. -/
def extIdx (N r : Nat) : List Nat :=
  (List.range N).drop (N - r) ++ List.range N ++ (List.range N).take r

theorem extIdx_length (N r : Nat) (h2 : r ≤ N) : (extIdx N r).length = N + 2 * r := by
  simp [extIdx]; omega

theorem extIdx_get (N r k : Nat) (h1 : 1 ≤ r) (h2 : r ≤ N) (hk : k < N + 2 * r) :
    (extIdx N r)[k]? = some ((k + N - r) % N) := by
  unfold extIdx
  rcases Nat.lt_or_ge k r with h | h
  · rw [List.append_assoc, List.getElem?_append_left (by simp; omega)]
    rw [List.getElem?_drop, List.getElem?_range (by omega)]
    congr 1
    rw [Nat.mod_eq_of_lt (by omega)]; omega
  · rcases Nat.lt_or_ge k (r + N) with h' | h'
    · rw [List.getElem?_append_left (by simp; omega), List.getElem?_append_right (by simp; omega)]
      simp only [List.length_drop, List.length_range]
      rw [List.getElem?_range (by omega)]
      congr 1
      have : k + N - r = (k - r) + N := by omega
      rw [this, Nat.add_mod_right, Nat.mod_eq_of_lt (by omega)]; omega
    · rw [List.getElem?_append_right (by simp; omega)]
      simp only [List.length_append, List.length_drop, List.length_range]
      rw [List.getElem?_take_of_lt (by omega), List.getElem?_range (by omega)]
      congr 1
      have : k + N - r = (k - r - N) + N + N := by omega
      rw [this, Nat.add_mod_right, Nat.add_mod_right, Nat.mod_eq_of_lt (by omega)]; omega

theorem indexStrides_eq (N r : Nat) (h1 : 1 ≤ r) (h2 : r ≤ N) :
    indexStrides N r = (List.range N).map fun c => ((extIdx N r).drop c).take (2 * r + 1) := by
  simp only [indexStrides, fdiv_neg_window, fdiv_pos_window]
  rw [sliceFrom_range_neg N r h1 h2, sliceTo_range_pos N r h2]
  change (List.range ((extIdx N r).length + 1 - (2 * r + 1))).map _ = _
  rw [extIdx_length N r h2]
  have : N + 2 * r + 1 - (2 * r + 1) = N := by omega
  rw [this]; rfl

theorem indexStrides_eq_ring (N r : Nat) (h1 : 1 ≤ r) (h2 : r ≤ N) :
    indexStrides N r
      = (List.range N).map fun c => (List.range (2 * r + 1)).map fun j => (c + j + N - r) % N := by
  rw [indexStrides_eq N r h1 h2]
  apply List.map_congr_left
  intro c hc
  have hc : c < N := by simpa using hc
  apply List.ext_getElem?
  intro j
  rcases Nat.lt_or_ge j (2 * r + 1) with hj | hj
  · rw [List.getElem?_take_of_lt hj, List.getElem?_drop,
      extIdx_get N r (c + j) h1 h2 (by omega), List.getElem?_map, List.getElem?_range hj]
    rfl
  · rw [List.getElem?_eq_none (by simp; omega), List.getElem?_eq_none (by simp; omega)]

section
variable {σ α : Type}

theorem neighbourhoods_eq_map_window [Inhabited α] (cells : List α) (r : Nat) (h1 : 1 ≤ r)
    (h2 : r ≤ cells.length) :
    neighbourhoods cells r = (List.range cells.length).map (Spec.window cells r) := by
  unfold neighbourhoods
  rw [indexStrides_eq_ring _ r h1 h2, List.map_map]
  apply List.map_congr_left
  intro c _
  simp [gather, Spec.window, List.map_map, Function.comp_def]

theorem window_length' [Inhabited α] (cells : List α) (r c : Nat) :
    (Spec.window cells r c).length = 2 * r + 1 := by
  simp [Spec.window]

/-! ## The unmemoized loop is the specification step -/

theorem plainLoop_eq_stepCells [Inhabited α] (rule : Rule1 σ α) (cells : List α) (r t : Nat) :
    ∀ (n c : Nat) (s : σ),
      plainLoop rule t ((List.range' c n).map (Spec.window cells r)) c s
        = Spec.stepCells rule cells r t (List.range' c n) s
  | 0, _, _ => rfl
  | n + 1, c, s => by
    simp only [List.range'_succ, List.map_cons, plainLoop, Spec.stepCells]
    rw [plainLoop_eq_stepCells rule cells r t n (c + 1)]

theorem stepCells_length [Inhabited α] (rule : Rule1 σ α) (cells : List α) (r t : Nat) :
    ∀ (cs : List Nat) (s : σ), (Spec.stepCells rule cells r t cs s).1.length = cs.length
  | [], _ => rfl
  | c :: cs, s => by
    simp only [Spec.stepCells, List.length_cons]
    rw [stepCells_length rule cells r t cs]

theorem spec_step_length [Inhabited α] (rule : Rule1 σ α) (cells : List α) (r t : Nat) (s : σ) :
    (Spec.step rule cells r t s).1.length = cells.length := by
  simp [Spec.step, stepCells_length]

theorem step1_plain [DecidableEq α] [Inhabited α] (rule : Rule1 σ α) (r : Nat) (cells : List α)
    (t : Nat) (cs : Caches α) (s : σ) (h1 : 1 ≤ r) (h2 : r ≤ cells.length) :
    step1 .plain rule r cells t cs s
      = ((Spec.step rule cells r t s).1, cs, (Spec.step rule cells r t s).2) := by
  simp only [step1]
  rw [neighbourhoods_eq_map_window cells r h1 h2, List.range_eq_range', plainLoop_eq_stepCells]
  simp only [Spec.step, List.range_eq_range']

theorem fixedLoop_plain [DecidableEq α] [Inhabited α] (rule : Rule1 σ α) (r : Nat) (h1 : 1 ≤ r) :
    ∀ (k t : Nat) (cells : List α) (cs : Caches α) (s : σ), r ≤ cells.length →
      fixedLoop .plain rule r k t cells cs s
        = ((Spec.run rule r k t cells s).1, cs, (Spec.run rule r k t cells s).2)
  | 0, _, _, _, _, _ => rfl
  | k + 1, t, cells, cs, s, h2 => by
    simp only [fixedLoop, Spec.run]
    rw [step1_plain rule r cells t cs s h1 h2]
    simp only
    rw [fixedLoop_plain rule r h1 k (t + 1) _ cs _ (by rw [spec_step_length]; exact h2)]

/-! ## Shape of the specification run, call trace -/

theorem run_length [Inhabited α] (rule : Rule1 σ α) (r : Nat) :
    ∀ (k t : Nat) (cells : List α) (s : σ), (Spec.run rule r k t cells s).1.length = k
  | 0, _, _, _ => rfl
  | k + 1, t, cells, s => by
    simp only [Spec.run, List.length_cons]
    rw [run_length rule r k]

theorem run_row_length [Inhabited α] (rule : Rule1 σ α) (r : Nat) :
    ∀ (k t : Nat) (cells : List α) (s : σ),
      ∀ row ∈ (Spec.run rule r k t cells s).1, row.length = cells.length
  | 0, _, _, _ => by simp [Spec.run]
  | k + 1, t, cells, s => by
    intro row hrow
    simp only [Spec.run, List.mem_cons] at hrow
    rcases hrow with h | h
    · rw [h, spec_step_length]
    · rw [run_row_length rule r k _ _ _ row h, spec_step_length]

theorem stepCells_logged [Inhabited α] (rule : Rule1 σ α) (cells : List α) (r t : Nat) :
    ∀ (cs : List Nat) (s : σ) (log : List (List α × Nat × Nat)),
      Spec.stepCells (logged rule) cells r t cs (s, log)
        = ((Spec.stepCells rule cells r t cs s).1,
           ((Spec.stepCells rule cells r t cs s).2,
            log ++ cs.map fun c => (Spec.window cells r c, c, t)))
  | [], _, _ => by simp [Spec.stepCells]
  | c :: cs, s, log => by
    simp only [Spec.stepCells, logged]
    rw [stepCells_logged rule cells r t cs]
    simp [List.append_assoc]

theorem run_logged' [Inhabited α] (rule : Rule1 σ α) (r : Nat) :
    ∀ (k t : Nat) (cells : List α) (s : σ) (log : List (List α × Nat × Nat)),
      Spec.run (logged rule) r k t cells (s, log)
        = ((Spec.run rule r k t cells s).1,
           ((Spec.run rule r k t cells s).2,
            log ++ Spec.callsOfRows r t cells (Spec.run rule r k t cells s).1))
  | 0, _, _, _, _ => by simp [Spec.run, Spec.callsOfRows]
  | k + 1, t, cells, s, log => by
    simp only [Spec.run, Spec.step, Spec.callsOfRows]
    rw [stepCells_logged rule cells r t]
    simp only
    rw [run_logged' rule r k (t + 1)]
    simp [List.append_assoc]

theorem callsOfRows_length' [Inhabited α] (r : Nat) :
    ∀ (t : Nat) (cells : List α) (rows : List (List α)),
      (∀ row ∈ rows, row.length = cells.length) →
      (Spec.callsOfRows r t cells rows).length = cells.length * rows.length
  | _, _, [], _ => by simp [Spec.callsOfRows]
  | t, cells, row :: rows, h => by
    have hrow : row.length = cells.length := h row (by simp)
    have hrows : ∀ row' ∈ rows, row'.length = row.length := by
      intro row' hr
      rw [hrow]; exact h row' (by simp [hr])
    simp only [Spec.callsOfRows, List.length_append, List.length_map, List.length_range,
      List.length_cons]
    rw [callsOfRows_length' r (t + 1) row rows hrows, hrow, Nat.mul_succ]
    omega

/-! ## `fixedLoop`: unfolding, length, prefixes -/

theorem fixedLoop_succ [DecidableEq α] [Inhabited α] (mode : Mode) (rule : Rule1 σ α)
    (r k t : Nat) (cells : List α) (cs : Caches α) (s : σ) :
    fixedLoop mode rule r (k + 1) t cells cs s
      = ((step1 mode rule r cells t cs s).1 ::
          (fixedLoop mode rule r k (t + 1) (step1 mode rule r cells t cs s).1
            (step1 mode rule r cells t cs s).2.1 (step1 mode rule r cells t cs s).2.2).1,
         (fixedLoop mode rule r k (t + 1) (step1 mode rule r cells t cs s).1
            (step1 mode rule r cells t cs s).2.1 (step1 mode rule r cells t cs s).2.2).2) := rfl

theorem fixedLoop_length [DecidableEq α] [Inhabited α] (mode : Mode) (rule : Rule1 σ α) (r : Nat) :
    ∀ (k t : Nat) (cells : List α) (cs : Caches α) (s : σ),
      (fixedLoop mode rule r k t cells cs s).1.length = k
  | 0, _, _, _, _ => rfl
  | k + 1, t, cells, cs, s => by
    rw [fixedLoop_succ]
    simp only [List.length_cons]
    rw [fixedLoop_length mode rule r k]

theorem fixedLoop_take [DecidableEq α] [Inhabited α] (mode : Mode) (rule : Rule1 σ α) (r : Nat) :
    ∀ (i k t : Nat) (cells : List α) (cs : Caches α) (s : σ), i ≤ k →
      (fixedLoop mode rule r i t cells cs s).1 = (fixedLoop mode rule r k t cells cs s).1.take i
  | 0, _, _, _, _, _, _ => by simp [fixedLoop]
  | i + 1, 0, _, _, _, _, h => by omega
  | i + 1, k + 1, t, cells, cs, s, h => by
    rw [fixedLoop_succ, fixedLoop_succ]
    simp only [List.take_succ_cons]
    rw [fixedLoop_take mode rule r i k _ _ _ _ (by omega)]

/-! ## `dynLoop` against `fixedLoop` -/

theorem dynLoop_eq_fixedLoop [DecidableEq α] [Inhabited α] (mode : Mode) (rule : Rule1 σ α)
    (r : Nat) (pred : List (List α) → Nat → Bool) :
    ∀ (m fuel t : Nat) (acc : List (List α)) (cells : List α) (cs : Caches α) (s : σ),
      (m = 0 ∨ mode ≠ .bad) → m < fuel →
      (∀ i, i < m → pred (acc ++ (fixedLoop mode rule r i t cells cs s).1) (t + i) = true) →
      pred (acc ++ (fixedLoop mode rule r m t cells cs s).1) (t + m) = false →
      dynLoop mode rule r pred fuel t acc cells cs s
        = some (.ok (acc ++ (fixedLoop mode rule r m t cells cs s).1,
                     (fixedLoop mode rule r m t cells cs s).2.2))
  | 0, fuel, t, acc, cells, cs, s, _, hfuel, _, hno => by
    obtain ⟨f, rfl⟩ : ∃ f, fuel = f + 1 := ⟨fuel - 1, by omega⟩
    have hno' : pred acc t = false := by simpa [fixedLoop] using hno
    simp [dynLoop, hno', fixedLoop]
  | m + 1, fuel, t, acc, cells, cs, s, hm, hfuel, hyes, hno => by
    obtain ⟨f, rfl⟩ : ∃ f, fuel = f + 1 := ⟨fuel - 1, by omega⟩
    have hm' : mode ≠ .bad := by
      rcases hm with h | h
      · omega
      · exact h
    have h0 : pred acc t = true := by simpa [fixedLoop] using hyes 0 (by omega)
    simp only [dynLoop, h0, if_true, hm', if_false]
    rw [dynLoop_eq_fixedLoop mode rule r pred m f (t + 1) _ _ _ _ (Or.inr hm') (by omega)]
    · rw [fixedLoop_succ]
      simp [List.append_assoc]
    · intro i hi
      have := hyes (i + 1) (by omega)
      rw [fixedLoop_succ] at this
      simpa [List.append_assoc, Nat.add_assoc, Nat.add_comm 1 i] using this
    · have := hno
      rw [fixedLoop_succ] at this
      simpa [List.append_assoc, Nat.add_assoc, Nat.add_comm 1 m] using this

theorem dynLoop_ok_inv [DecidableEq α] [Inhabited α] (mode : Mode) (rule : Rule1 σ α)
    (r : Nat) (pred : List (List α) → Nat → Bool) :
    ∀ (fuel t : Nat) (acc : List (List α)) (cells : List α) (cs : Caches α) (s : σ)
      (res : List (List α)) (s' : σ),
      dynLoop mode rule r pred fuel t acc cells cs s = some (.ok (res, s')) →
      ∃ m, (∀ i, i < m → pred (acc ++ (fixedLoop mode rule r i t cells cs s).1) (t + i) = true) ∧
        pred (acc ++ (fixedLoop mode rule r m t cells cs s).1) (t + m) = false ∧
        res = acc ++ (fixedLoop mode rule r m t cells cs s).1 ∧
        s' = (fixedLoop mode rule r m t cells cs s).2.2
  | 0, _, _, _, _, _, _, _, h => by simp [dynLoop] at h
  | f + 1, t, acc, cells, cs, s, res, s', h => by
    by_cases hp : pred acc t = true
    · by_cases hm : mode = .bad
      · simp [dynLoop, hp, hm] at h
      · simp only [dynLoop, hp, if_true, hm, if_false] at h
        obtain ⟨m, hyes, hno, hres, hs⟩ := dynLoop_ok_inv mode rule r pred f _ _ _ _ _ _ _ h
        refine ⟨m + 1, ?_, ?_, ?_, ?_⟩
        · intro i hi
          cases i with
          | zero => simpa [fixedLoop] using hp
          | succ i =>
            have := hyes i (by omega)
            rw [fixedLoop_succ]
            simpa [List.append_assoc, Nat.add_assoc, Nat.add_comm 1 i] using this
        · rw [fixedLoop_succ]
          simpa [List.append_assoc, Nat.add_assoc, Nat.add_comm 1 m] using hno
        · rw [fixedLoop_succ]
          simpa [List.append_assoc] using hres
        · rw [fixedLoop_succ]
          exact hs
    · have hp' : pred acc t = false := by simpa using hp
      simp only [dynLoop, hp', Bool.false_eq_true, if_false, Option.some.injEq, Except.ok.injEq,
        Prod.mk.injEq] at h
      refine ⟨0, ?_, ?_, ?_, ?_⟩
      · intro i hi; omega
      · simpa [fixedLoop] using hp'
      · simp [fixedLoop, h.1]
      · simp [fixedLoop, h.2]

/-! ## `until_fixed_point` looks at the last two rows -/

theorem untilFixedPoint_take [DecidableEq α] (ca : List (List α)) (i t : Nat) (hi : i < ca.length) :
    untilFixedPoint (ca.take (i + 1)) t
      = if 1 ≤ i then !(decide (ca[i - 1]? = ca[i]?)) else true := by
  have hlen : (ca.take (i + 1)).length = i + 1 := by
    rw [List.length_take]; omega
  unfold untilFixedPoint
  rw [hlen]
  by_cases h : 1 ≤ i
  · have h' : i + 1 > 1 := by omega
    simp only [h', h, if_true]
    have e1 : i + 1 - 2 = i - 1 := by omega
    have e2 : i + 1 - 1 = i := by omega
    rw [e1, e2, List.getElem?_take_of_lt (by omega), List.getElem?_take_of_lt (by omega)]
  · have h' : ¬ i + 1 > 1 := by omega
    simp only [h', h, if_false]

/-! ## Row lengths in every mode -/

theorem rowlen_plainLoop (rule : Rule1 σ α) (t : Nat) :
    ∀ (ns : List (List α)) (c : Nat) (s : σ), (plainLoop rule t ns c s).1.length = ns.length
  | [], _, _ => rfl
  | n :: ns, c, s => by
    simp only [plainLoop, List.length_cons]
    rw [rowlen_plainLoop rule t ns]

theorem rowlen_memoLoop [DecidableEq α] (rule : Rule1 σ α) (t : Nat) :
    ∀ (ns : List (List α)) (c : Nat) (tbl : MemoTable α) (s : σ),
      (memoLoop rule t ns c tbl s).1.length = ns.length
  | [], _, _, _ => rfl
  | n :: ns, c, tbl, s => by
    simp only [memoLoop, List.length_cons]
    rw [rowlen_memoLoop rule t ns]

theorem rowlen_neighbourhoods [Inhabited α] (cells : List α) (r : Nat) (h1 : 1 ≤ r)
    (h2 : r ≤ cells.length) : (neighbourhoods cells r).length = cells.length := by
  rw [neighbourhoods_eq_map_window cells r h1 h2]; simp

theorem rowlen_setMany [Inhabited α] (next : List α) (lo : Nat) (vals : List α) :
    (setMany next lo vals).length = next.length := by
  simp [setMany]

theorem rowlen_updateRec [DecidableEq α] [Inhabited α] (rule : Rule1 σ α) (r : Nat)
    (curr : List α) (t : Nat) :
    ∀ (len lo : Nat) (st : RecSt σ α),
      (updateRec rule r curr t len lo st).next.length = st.next.length := by
  intro len
  induction len using Nat.strongRecOn with
  | _ len ih =>
    intro lo st
    rw [updateRec]
    simp only
    split
    · simp [rowlen_setMany]
    · split
      · rename_i hlen
        simp only
        rw [ih (len - len / 2) (by omega), ih (len / 2) (by omega)]
      · simp [rowlen_setMany]

theorem rowlen_stepRec [DecidableEq α] [Inhabited α] (rule : Rule1 σ α) (r : Nat)
    (curr : List α) (t : Nat) (cache : RecCache α) (s : σ) :
    (stepRec rule r curr t cache s).next.length = curr.length := by
  unfold stepRec
  simp only
  split <;> split <;> simp [rowlen_updateRec]

theorem rowlen_step1 [DecidableEq α] [Inhabited α] (mode : Mode) (rule : Rule1 σ α) (r : Nat)
    (cells : List α) (t : Nat) (cs : Caches α) (s : σ) (h1 : 1 ≤ r) (h2 : r ≤ cells.length) :
    (step1 mode rule r cells t cs s).1.length = cells.length := by
  cases mode <;>
    simp [step1, rowlen_stepRec, rowlen_memoLoop, rowlen_plainLoop, rowlen_neighbourhoods, h1, h2]

theorem rowlen_fixedLoop [DecidableEq α] [Inhabited α] (mode : Mode) (rule : Rule1 σ α) (r : Nat)
    (h1 : 1 ≤ r) :
    ∀ (k t : Nat) (cells : List α) (cs : Caches α) (s : σ), r ≤ cells.length →
      ∀ row ∈ (fixedLoop mode rule r k t cells cs s).1, row.length = cells.length
  | 0, _, _, _, _, _ => by simp [fixedLoop]
  | k + 1, t, cells, cs, s, h2 => by
    intro row hrow
    rw [fixedLoop_succ] at hrow
    simp only [List.mem_cons] at hrow
    have hl := rowlen_step1 mode rule r cells t cs s h1 h2
    rcases hrow with h | h
    · rw [h, hl]
    · rw [rowlen_fixedLoop mode rule r h1 k _ _ _ _ (by rw [hl]; exact h2) row h, hl]

/-! ## Composition of runs -/

theorem getLast?_append_some (hist rows : List (List α)) (init : List α)
    (h : hist.getLast? = some init) :
    (hist ++ rows).getLast? = some (rows.getLast?.getD init) := by
  rw [List.getLast?_append, h]
  cases rows.getLast? <;> rfl

theorem run_add [Inhabited α] (rule : Rule1 σ α) (r : Nat) :
    ∀ (k1 k2 t : Nat) (cells : List α) (s : σ),
      Spec.run rule r (k1 + k2) t cells s
        = ((Spec.run rule r k1 t cells s).1 ++
            (Spec.run rule r k2 (t + k1) ((Spec.run rule r k1 t cells s).1.getLast?.getD cells)
              (Spec.run rule r k1 t cells s).2).1,
           (Spec.run rule r k2 (t + k1) ((Spec.run rule r k1 t cells s).1.getLast?.getD cells)
              (Spec.run rule r k1 t cells s).2).2)
  | 0, k2, t, cells, s => by simp [Spec.run]
  | k1 + 1, k2, t, cells, s => by
    have e : k1 + 1 + k2 = (k1 + k2) + 1 := by omega
    rw [e]
    simp only [Spec.run]
    rw [run_add rule r k1 k2 (t + 1)]
    simp [List.getLast?_cons, Nat.add_assoc, Nat.add_comm 1 k1]

theorem stepCells_timeFree [Inhabited α] (rule : Rule1 σ α) (htf : TimeFree rule) (cells : List α)
    (r t t' : Nat) :
    ∀ (cs : List Nat) (s : σ),
      Spec.stepCells rule cells r t cs s = Spec.stepCells rule cells r t' cs s
  | [], _ => rfl
  | c :: cs, s => by
    simp only [Spec.stepCells]
    rw [htf s _ c t t', stepCells_timeFree rule htf cells r t t' cs]

theorem run_timeFree [Inhabited α] (rule : Rule1 σ α) (htf : TimeFree rule) (r : Nat) :
    ∀ (k t t' : Nat) (cells : List α) (s : σ),
      Spec.run rule r k t cells s = Spec.run rule r k t' cells s
  | 0, _, _, _, _ => rfl
  | k + 1, t, t', cells, s => by
    simp only [Spec.run, Spec.step]
    rw [stepCells_timeFree rule htf cells r t t', run_timeFree rule htf r k (t + 1) (t' + 1)]

theorem run_getLast_length [Inhabited α] (rule : Rule1 σ α) (r k t : Nat) (cells : List α) (s : σ) :
    ((Spec.run rule r k t cells s).1.getLast?.getD cells).length = cells.length := by
  cases h : (Spec.run rule r k t cells s).1.getLast? with
  | none => rfl
  | some row =>
    exact run_row_length rule r k t cells s row (List.mem_of_getLast? h)

theorem rowlen_pureRun [Inhabited α] (f : List α → α) (r : Nat) :
    ∀ (k : Nat) (cells : List α), ∀ row ∈ Spec.pureRun f r k cells, row.length = cells.length
  | 0, _ => by simp [Spec.pureRun]
  | k + 1, cells => by
    intro row hrow
    simp only [Spec.pureRun, List.mem_cons] at hrow
    rcases hrow with h | h
    · rw [h]; simp [Spec.pureStep]
    · rw [rowlen_pureRun f r k _ row h]; simp [Spec.pureStep]

theorem pureRun_getLast_length [Inhabited α] (f : List α → α) (r k : Nat) (cells : List α) :
    ((Spec.pureRun f r k cells).getLast?.getD cells).length = cells.length := by
  cases h : (Spec.pureRun f r k cells).getLast? with
  | none => rfl
  | some row =>
    exact rowlen_pureRun f r k cells row (List.mem_of_getLast? h)

theorem pureRun_add [Inhabited α] (f : List α → α) (r : Nat) :
    ∀ (k1 k2 : Nat) (cells : List α),
      Spec.pureRun f r (k1 + k2) cells
        = Spec.pureRun f r k1 cells ++
            Spec.pureRun f r k2 ((Spec.pureRun f r k1 cells).getLast?.getD cells)
  | 0, k2, cells => by simp [Spec.pureRun]
  | k1 + 1, k2, cells => by
    have e : k1 + 1 + k2 = (k1 + k2) + 1 := by omega
    rw [e]
    simp only [Spec.pureRun]
    rw [pureRun_add f r k1 k2]
    simp [List.getLast?_cons]

end

end Cpl
