import Cpl.Spec.Ring

/-!
# Helper lemmas about the 1D evolution model (shared by C01, C03, C05, C06, C09).
-/

namespace Cpl
open Py

end Cpl
