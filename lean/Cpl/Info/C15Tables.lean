import Cpl.Properties.C15

/-!
# Informational facts about the generated loop tables (not proof obligations of C15)

Re-checked against the current source on every run (`Cpl.Gen.Tables` is regenerated); the check reports
whether this module still builds in its evidence (`informational`), and a failure here is *not* a violation:
orientation independence provably survives conflicting lines (`C15.initTable_rot_invariant`).
-/

namespace Cpl.C15
open Cpl Cpl.Gen Cpl.Ctrbl

/-- No two lines of Langton's table that are rotations of each other carry different images. -/
theorem langton_no_conflicts :
    ∀ e ∈ langtonEntries, ∀ e' ∈ langtonEntries, e'.1 ∈ orbit e.1 → e'.2 = e.2 :=
  noConflictsB_sound _ (by decide +kernel)

/-- No two lines of Evoloop's table that are rotations of each other carry different images. -/
theorem evoloop_no_conflicts :
    ∀ e ∈ evoloopEntries, ∀ e' ∈ evoloopEntries, e'.1 ∈ orbit e.1 → e'.2 = e.2 :=
  noConflictsB_sound _ (by decide +kernel)

/-- Hence every listed line of Langton's and Evoloop's tables is honoured as written, in all four
    orientations. -/
theorem listed_lines_honoured :
    (∀ e ∈ langtonEntries, ∀ k' ∈ orbit e.1, langtonLoop k' = .ok e.2) ∧
    (∀ e ∈ evoloopEntries, ∀ k' ∈ orbit e.1, evoloop k' = some e.2) := by
  constructor
  · intro e he k' hk'
    unfold langtonLoop langtonTable
    rw [builtin_add_rotations.1]
    refine (ctrbl_call.1 _ _ _).mpr (initTable_faithful langtonEntries ?_ e.1 e.2 he k' hk')
    intro k v k1 v1 h h1 ho
    exact langton_no_conflicts (k, v) h (k1, v1) h1 ho
  · intro e he k' hk'
    unfold evoloop evoloopTable
    rw [builtin_add_rotations.2]
    rw [initTable_faithful evoloopEntries ?_ e.1 e.2 he k' hk']
    intro k v k1 v1 h h1 ho
    exact evoloop_no_conflicts (k, v) h (k1, v1) h1 ho


end Cpl.C15
