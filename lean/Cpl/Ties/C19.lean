import Cpl.Gen.Apen
import Cpl.Model.Measures
import Cpl.Ties.C19Lemmas

/-!
# C19 — the countable part of `apen` equals the model, for all sequences

`Cpl.Gen.Apen.*` are regenerated on every run by `tools/py2lean_apen.py` from `/repo/cellpylib/apen.py`: the body of the
nested `maximum_distance`, and of the nested `phi` the window list `x`, the numerators of `C`, the two denominators, plus
the argument pair of the final `abs(phi(m + 1) - phi(m))` (closure-converted: `U`, `N`, `r` become parameters). The
theorems of `Cpl/Properties/C19.lean` are about the model's `windows`, `maxDist`, `matchCount`, `phi`, `apen`
(`Cpl/Model/Measures.lean`); the theorems below prove the translated source equal to those definitions for every integer
sequence, window length `m ≥ 1` and filtering level, and that nothing in it raises.

Outside the translated subset (modelled; validated through the correspondence on every run): the dispatch on the input
form (`str` / `list` / `ndarray`, `astype(np.int64)`), `np.log`, the floating-point quotient, sum, product and `abs`; a
fractional `r` (the model sees `⌊r⌋`, which decides the same comparisons on whole-number distances).
-/

namespace Cpl.C19tie
open Cpl

theorem foldl_max_nonneg (l : List Int) (x : Int) (hx : 0 ≤ x) : l.foldl max (max 0 x) = l.foldl max x := by
  rw [Int.max_eq_right hx]

theorem pyMax_nonneg (l : List Int) (hl : l ≠ []) (h : ∀ x ∈ l, 0 ≤ x) : pyMax l = some (l.foldl max 0) := by
  cases l with
  | nil => exact absurd rfl hl
  | cons x xs =>
    simp only [pyMax, List.foldl_cons]
    rw [Int.max_eq_right (h x (by simp))]

/-- **Source tie (C19), distance.** The translated `max([abs(ua - va) for ua, va in zip(x_i, x_j)])` is the model's
    Chebyshev distance `maxDist` for all non-empty windows (for an empty one Python raises `ValueError`). -/
theorem maximumDistance_tie (a b : List Int) (ha : a ≠ []) (hb : b ≠ []) :
    Gen.Apen.maximumDistance a b = some (maxDist a b) := by
  unfold Gen.Apen.maximumDistance maxDist
  have hm := mapM_some (fun x : Int × Int => match x with | (v_ua, v_va) => (pure (((v_ua - v_va).natAbs : Nat) : Int) : Option Int))
    (fun x : Int × Int => match x with | (x, y) => (((x - y).natAbs : Nat) : Int)) (a.zip b) (fun p _ => rfl)
  rw [hm]
  simp only [Option.bind_eq_bind, Option.bind_some]
  rw [pyMax_nonneg]
  · cases a <;> cases b <;> simp_all
  · intro x hx
    simp only [List.mem_map] at hx
    obtain ⟨p, _, rfl⟩ := hx
    exact Int.natCast_nonneg _

theorem pyRange_zero_int (b : Int) : pyRange 0 b 1 = (List.range b.toNat).map Int.ofNat := by
  by_cases hb : b ≤ 0
  · have : b.toNat = 0 := by omega
    simp [pyRange, hb, this]
  · have h : b = ((b.toNat : Nat) : Int) := by omega
    generalize b.toNat = n at h
    subst h
    rw [C10tie.pyRange_unit]

theorem window_tie (u : List Int) (m i : Nat) (hi : i + m ≤ u.length) :
    List.mapM (fun v_j : Int => ((pure v_j : Option Int) >>= fun k_i => (Py.getIdx u k_i).toOption))
      (pyRange (i : Int) ((((i : Int) + (m : Int)) - 1) + 1) 1) = some ((u.drop i).take m) := by
  have e : (((i : Int) + (m : Int)) - 1) + 1 = (i : Int) + (m : Int) := by omega
  rw [e, C10tie.pyRange_from]
  rw [mapM_some _ (fun v : Int => u.getD v.toNat 0)]
  · congr 1
    apply List.ext_getElem?
    intro j
    by_cases hj : j < m
    · have h2 : i + j < u.length := by omega
      have h3 : ((i : Int) + (j : Int)).toNat = i + j := by omega
      simp [hj, List.getElem?_drop, h2, h3]
    · simp [hj, List.getElem?_take]
  · intro v hv
    simp only [List.mem_map, List.mem_range] at hv
    obtain ⟨j, hj, rfl⟩ := hv
    have h2 : i + j < u.length := by omega
    simp only [Option.pure_def, Option.bind_eq_bind, Option.bind_some]
    have h3 : ((i : Int) + (j : Int)).toNat = i + j := by omega
    rw [getIdx_nat u (i + j) h2]
    simp [h2, h3]

/-- **Source tie (C19), windows.** For every integer sequence and every window length the translated
    `x = [[U[j] for j in range(i, i + m - 1 + 1)] for i in range(N - m + 1)]` (with `N = len(U)`) builds exactly the
    model's `windows u m` and does not raise. -/
theorem phiWindows_source_tie (u : List Int) (m : Nat) :
    Gen.Apen.phiWindows u (m : Int) = some (windows u m) := by
  unfold Gen.Apen.phiWindows windows
  simp only
  rw [pyRange_zero_int]
  have hn : (((u.length : Nat) : Int) - (m : Int) + 1).toNat = u.length + 1 - m := by omega
  rw [hn, mapM_some _ (fun v : Int => (u.drop v.toNat).take m)]
  · simp [List.map_map, Function.comp_def]
  · intro v hv
    simp only [List.mem_map, List.mem_range] at hv
    obtain ⟨i, hi, rfl⟩ := hv
    have := window_tie u m i (by omega)
    simpa using this

/-- **Source tie (C19), match counts.** For every list of non-empty windows and every filtering level the translated
    numerators `len([1 for x_j in x if maximum_distance(x_i, x_j) <= r])` are exactly the model's `matchCount`s, and
    nothing raises. (`max([])` raises for empty windows: `m = 0` is outside the claim.) -/
theorem phiCounts_source_tie (ws : List (List Int)) (r : Int) (hne : ∀ w ∈ ws, w ≠ []) :
    Gen.Apen.phiCounts ws r = some (ws.map fun xi => ((matchCount ws r xi : Nat) : Int)) := by
  unfold Gen.Apen.phiCounts
  apply mapM_some
  intro xi hxi
  have hf := filterM_some
    (fun v_x_j => ((Gen.Apen.maximumDistance xi v_x_j) >>= fun k_a => (pure r : Option Int) >>= fun k_b =>
      (pure (decide (k_a ≤ k_b)) : Option Bool)))
    (fun xj => decide (maxDist xi xj ≤ r)) ws
    (fun xj hxj => by simp [maximumDistance_tie xi xj (hne xi hxi) (hne xj hxj)])
  rw [hf]
  simp only [Option.bind_eq_bind, Option.bind_some]
  have hm := mapM_some (fun _ : List Int => (pure (1 : Int) : Option Int)) (fun _ => (1 : Int))
    (List.filter (fun xj => decide (maxDist xi xj ≤ r)) ws) (fun _ _ => rfl)
  rw [hm]
  simp [matchCount]

/-- **Source tie (C19), the countable part of `phi(m)`.** For every integer sequence `u`, window length `m ≥ 1` and
    filtering level `r`: the translated statements of `phi` build the model's windows and, for each window, the model's
    match count; no index is out of range and no `max` is taken of an empty list. -/
theorem phi_counts_source_tie (u : List Int) (m : Nat) (r : Int) (hm : 1 ≤ m) :
    (Gen.Apen.phiWindows u (m : Int) >>= fun x => Gen.Apen.phiCounts x r)
      = some ((windows u m).map fun xi => ((matchCount (windows u m) r xi : Nat) : Int)) := by
  rw [phiWindows_source_tie]
  simp only [Option.bind_eq_bind, Option.bind_some]
  apply phiCounts_source_tie
  intro w hw
  simp only [windows, List.mem_map, List.mem_range] at hw
  obtain ⟨i, hi, rfl⟩ := hw
  intro h
  have := congrArg List.length h
  simp at this
  omega

/-- **Source tie (C19), denominators.** Both denominators in `phi(k)` (`N - k + 1.0`) are the number of windows
    `N + 1 - k` the model divides by, for every `k ≤ N + 1` (the claim's `m` and `m + 1` with `m ≤ N`). -/
theorem phiDenoms_source_tie (u : List Int) (k : Nat) (hk : k ≤ u.length + 1) :
    Gen.Apen.phiDenoms (u.length : Int) (k : Int) = [((u.length + 1 - k : Nat) : Int), ((u.length + 1 - k : Nat) : Int)] := by
  unfold Gen.Apen.phiDenoms
  have : ((u.length : Int) - (k : Int)) + 1 = ((u.length + 1 - k : Nat) : Int) := by omega
  rw [this]

/-- **Source tie (C19), the final expression.** `apen` returns `abs(phi(m + 1) - phi(m))`: the two window lengths
    are the model's. -/
theorem phiArgs_source_tie (m : Nat) : Gen.Apen.phiArgs (m : Int) = (((m + 1 : Nat) : Int), (m : Int)) := by
  unfold Gen.Apen.phiArgs
  simp

/-- Non-vacuity: a concrete sequence on which the translated code and the model are evaluated (a test). -/
example : (Gen.Apen.phiWindows [0, 1, 0, 2] 2 >>= fun x => Gen.Apen.phiCounts x 1) = some [3, 2, 2] := by decide

end Cpl.C19tie
