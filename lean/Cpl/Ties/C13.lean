import Cpl.Gen.Objects
import Cpl.Ties.Lemmas

/-!
# C13 — the translated source of `ReversibleRule.__call__` equals the model, for all inputs

`Cpl.Gen.revCall` is regenerated from `/repo/cellpylib/ca_functions.py` on every run (`tools/py2lean.py`, object
mode); the theorems of `Cpl/Properties/C13.lean` are about the hand model `reversibleCall`
(`Cpl/Model/Rules.lean`). Outside the translated subset (parameters of the tie): `nks_rule(n, R)` — modelled by
`nksRule` (C07) and supplied through the environment — and how NumPy presents the window (`env.nb1`, `env.nbLen`).
-/

namespace Cpl.C13
open Cpl Cpl.Gen Cpl.Ties

/-- `ReversibleRule.__call__` as an expression over the object state. -/
theorem revCall_eq (env : Env) (o : RevObj) (c t : V) :
    Gen.revCall env o c t
      = (V.xor (env.nksRule o.ruleNumber) (V.intsGet o.prev c),
         { o with prev := V.intsSet o.prev c (V.int (env.nb1 (Py.fdiv env.nbLen 2))) }) := by
  simp only [Gen.revCall, Id.run, pure, V.toInt_int, V.floordiv]
  simp

/-- How a window of `2r+1` integers and the answer of `nks_rule` are presented to the translated code. -/
def envRev (n : List Int) (R : Nat) : Env :=
  { nbDim := 1, nbLen := (n.length : Int), nb1 := fun i => n.getD i.toNat 0,
    nksRule := fun r => if r = (R : Int) then ofExcept (nksRule n R) else V.none }

/-- **Source tie (C13).** Whenever the model's `reversibleCall` succeeds (the inner NKS rule accepts the window,
    `c` indexes the previous state, the window is non-empty), the translated `__call__` on the same object
    returns the same value and leaves the same `_previous_state`. Every rule number, window, previous state
    and cell index. -/
theorem reversible_call_source_tie (R : Nat) (prev : List Int) (n : List Int) (c : Nat) (t : V) (v : Int) (p' : List Int)
    (h : reversibleCall R prev n c = .ok (v, p')) :
    Gen.revCall (envRev n R) { prev := prev, ruleNumber := (R : Int) } (V.int (c : Int)) t
      = (V.int v, { prev := p', ruleNumber := (R : Int) }) := by
  rw [revCall_eq]
  unfold reversibleCall at h
  cases hr : nksRule n R with
  | error e => simp [hr, bind, Except.bind] at h
  | ok regular =>
    simp only [hr, bind, Except.bind] at h
    cases hp : Py.getIdx prev (c : Int) with
    | error e => simp [hp] at h
    | ok p =>
      simp only [hp] at h
      have e2 : ((n.length / 2 : Nat) : Int) = (n.length : Int) / 2 := by omega
      simp only [e2] at h
      cases hc : Py.getIdx n ((n.length : Int) / 2) with
      | error e => simp [hc] at h
      | ok centre =>
        simp only [hc, pure, Except.pure, Except.ok.injEq, Prod.mk.injEq] at h
        obtain ⟨hv, hp'⟩ := h
        -- the index facts hidden in the two successful `getIdx`
        have hcl : c < prev.length ∧ prev[c]? = some p := by
          unfold Py.getIdx at hp
          have h0 : ¬ ((c : Int) < 0) := by omega
          simp only [h0, if_false, Int.toNat_natCast] at hp
          cases hq : prev[c]? with
          | none => simp [hq] at hp
          | some q =>
            simp only [hq, Except.ok.injEq] at hp
            exact ⟨(List.getElem?_eq_some_iff.mp hq).1, by rw [hp]⟩
        have hnl : n.length / 2 < n.length ∧ n[n.length / 2]? = some centre := by
          unfold Py.getIdx at hc
          have h0 : ¬ (((n.length : Int) / 2) < 0) := by omega
          have h2 : ((n.length : Int) / 2).toNat = n.length / 2 := by omega
          simp only [h0, if_false, h2] at hc
          cases hq : n[n.length / 2]? with
          | none => simp [hq] at hc
          | some q =>
            simp only [hq, Except.ok.injEq] at hc
            exact ⟨(List.getElem?_eq_some_iff.mp hq).1, by rw [hc]⟩
        have hget : V.intsGet prev (V.int (c : Int)) = V.int p := by
          simp only [V.intsGet, V.toInt_int]
          have h0 : ¬ ((c : Int) < 0) := by omega
          have h1 : (0 : Int) ≤ (c : Int) ∧ (c : Int) < (prev.length : Int) := by omega
          simp only [h0, if_false, h1, and_self, if_true, Int.toNat_natCast, List.getD, hcl.2, Option.getD_some]
        have hfd : (Py.fdiv ((n.length : Nat) : Int) 2).toNat = n.length / 2 := by
          unfold Py.fdiv
          rw [Int.fdiv_eq_ediv_of_nonneg _ (by omega)]
          omega
        have hset : V.intsSet prev (V.int (c : Int)) (V.int ((envRev n R).nb1 (Py.fdiv (envRev n R).nbLen 2)))
            = prev.set c centre := by
          simp only [V.intsSet, V.toInt_int, envRev]
          have h0 : ¬ ((c : Int) < 0) := by omega
          have h1 : (0 : Int) ≤ (c : Int) ∧ (c : Int) < (prev.length : Int) := by omega
          simp only [h0, if_false, h1, and_self, if_true, Int.toNat_natCast, hfd, List.getD, hnl.2, Option.getD_some]
        rw [hset, hget]
        simp only [envRev, if_true, hr, Ties.ofExcept, V.xor, V.toInt_int, hv, hp']

end Cpl.C13
