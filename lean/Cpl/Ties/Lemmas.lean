import Cpl.Ties.Common

/-!
# Helper lemmas for the structural source ties (`Cpl/Ties/C11.lean`, `C14.lean`, `C15.lean`)

* the `V` operations on `V.int` arguments are the corresponding `Int` operations;
* a `for … in l do if p g then return x` loop (early return) is a `List.any` test.
-/

namespace Cpl.Ties
open Cpl Cpl.Gen

/-! ## `V` operations on integers -/

@[simp] theorem V.toInt_int (a : Int) : (V.int a).toInt = a := rfl

@[simp] theorem V.eq_int (a b : Int) : V.eq (.int a) (.int b) = decide (a = b) := rfl

@[simp] theorem V.eq_pair (a b a' b' : Int) :
    V.eq (.pair a b) (.pair a' b') = (decide (a = a') && decide (b = b')) := rfl

@[simp] theorem V.lt_int (a b : Int) : V.lt (.int a) (.int b) = decide (a < b) := rfl
@[simp] theorem V.le_int (a b : Int) : V.le (.int a) (.int b) = decide (a ≤ b) := rfl
@[simp] theorem V.gt_int (a b : Int) : V.gt (.int a) (.int b) = decide (a > b) := rfl
@[simp] theorem V.ge_int (a b : Int) : V.ge (.int a) (.int b) = decide (a ≥ b) := rfl
@[simp] theorem V.add_int (a b : Int) : V.add (.int a) (.int b) = .int (a + b) := rfl
@[simp] theorem V.sub_int (a b : Int) : V.sub (.int a) (.int b) = .int (a - b) := rfl
@[simp] theorem V.mul_int (a b : Int) : V.mul (.int a) (.int b) = .int (a * b) := rfl

@[simp] theorem V.truthy_bool (b : Bool) : V.truthy (.bool b) = b := rfl
@[simp] theorem V.isNone_none : V.isNone .none = true := rfl
@[simp] theorem V.isNone_int (a : Int) : V.isNone (.int a) = false := rfl
@[simp] theorem V.isNone_ofOpt (o : Option Int) : V.isNone (ofOpt o) = o.isNone := by
  cases o <;> rfl

@[simp] theorem V.idx_pair_zero (a b : Int) : V.idx (.pair a b) 0 = .int a := rfl
@[simp] theorem V.idx_pair_one (a b : Int) : V.idx (.pair a b) 1 = .int b := rfl

/-- `x in [literal list of ints]`. -/
theorem V.mem_ints (x : Int) (l : List Int) : V.mem (.int x) (l.map V.int) = mem x l := by
  induction l with
  | nil => rfl
  | cons a l ih =>
    simp only [V.mem, List.map_cons, List.any_cons, V.eq_int] at ih ⊢
    simp only [ih, mem, List.contains_cons]
    rfl

@[simp] theorem V.mem_nil (x : V) : V.mem x [] = false := rfl
@[simp] theorem V.mem_cons_int (x a : Int) (l : List V) :
    V.mem (.int x) (.int a :: l) = (decide (x = a) || V.mem (.int x) l) := by
  simp [V.mem]

/-- `x in (t, r, b, l)`. -/
@[simp] theorem V.memOf_quad (x t r b l : Int) :
    V.memOf (.int x) (.quad t r b l) = mem x [t, r, b, l] := by
  simpa [V.memOf, V.elems] using V.mem_ints x [t, r, b, l]

@[simp] theorem mem_nil (x : Int) : mem x [] = false := rfl
theorem mem_cons (x a : Int) (l : List Int) : mem x (a :: l) = (decide (x = a) || mem x l) := by
  simp [mem]

/-- `any(i in (t, r, b, l) for i in [literal ints])`. -/
theorem V.any_memOf_quad (xs : List Int) (t r b l : Int) :
    (xs.map V.int).any (fun v_i => V.memOf v_i (V.quad t r b l)) = xs.any (fun i => mem i [t, r, b, l]) := by
  rw [List.any_map]; congr 1

theorem V.any_memOf_quad_2to7 (t r b l : Int) :
    [V.int 2, V.int 3, V.int 4, V.int 5, V.int 6, V.int 7].any (fun v_i => V.memOf v_i (V.quad t r b l))
      = [2, 3, 4, 5, 6, 7].any (fun i => mem i [t, r, b, l]) :=
  V.any_memOf_quad [2, 3, 4, 5, 6, 7] t r b l

/-- The literal lists the centre state is tested against (kept separate from `mem_cons` so that
    `mem i [t, r, b, l]` stays atomic). -/
theorem mem_235 (x : Int) : mem x [2, 3, 5] = (decide (x = 2) || (decide (x = 3) || (decide (x = 5) || false))) := by
  simp only [mem_cons, mem_nil]
theorem mem_467 (x : Int) : mem x [4, 6, 7] = (decide (x = 4) || (decide (x = 6) || (decide (x = 7) || false))) := by
  simp only [mem_cons, mem_nil]
theorem mem_1to7 (x : Int) : mem x [1, 2, 3, 4, 5, 6, 7] = (decide (x = 1) || (decide (x = 2) || (decide (x = 3) ||
    (decide (x = 4) || (decide (x = 5) || (decide (x = 6) || (decide (x = 7) || false))))))) := by
  simp only [mem_cons, mem_nil]

/-! ## The environment presenting a key and a table -/

section
variable (tbl : Table) (c t r b l : Int)
@[simp] theorem envOfTable_nb11 : (envOfTable tbl (c, t, r, b, l)).nb 1 1 = c := rfl
@[simp] theorem envOfTable_nb01 : (envOfTable tbl (c, t, r, b, l)).nb 0 1 = t := rfl
@[simp] theorem envOfTable_nb12 : (envOfTable tbl (c, t, r, b, l)).nb 1 2 = r := rfl
@[simp] theorem envOfTable_nb21 : (envOfTable tbl (c, t, r, b, l)).nb 2 1 = b := rfl
@[simp] theorem envOfTable_nb10 : (envOfTable tbl (c, t, r, b, l)).nb 1 0 = l := rfl
end

@[simp] theorem envOfTable_tableMem (tbl : Table) (k : Key5) (a b c d e : Int) :
    (envOfTable tbl k).tableMem (.tup a b c d e) = (tbl.lookup (a, b, c, d, e)).isSome := rfl
@[simp] theorem envOfTable_tableGet (tbl : Table) (k : Key5) (a b c d e : Int) :
    (envOfTable tbl k).tableGet (.tup a b c d e) = ofOpt (tbl.lookup (a, b, c, d, e)) := rfl

/-! ## `for` loops with early return -/

/-- A `for g in l do if p g then return x g` loop in `Id` whose state is `(none, ())` until a return:
    the result is the `x` of the first element satisfying `p`, if any. -/
theorem forIn_earlyReturn {α β : Type} (l : List α) (p : α → Bool) (x : α → β) :
    (forIn (m := Id) l ((none : Option β), ()) fun g _ =>
        if p g = true then (ForInStep.done (some (x g), ()) : Id _)
        else (ForInStep.yield (none, ()) : Id _))
      = ((l.find? p).map x, ()) := by
  induction l with
  | nil => rfl
  | cons a l ih =>
    simp only [List.forIn_cons, List.find?_cons]
    cases h : p a
    · simp only [Bool.false_eq_true, if_false]
      exact ih
    · simp only [if_true, Option.map_some]
      rfl

/-- The same with a constant returned value: an `any` test. -/
theorem forIn_earlyReturn_const {α β : Type} (l : List α) (p : α → Bool) (x : β) :
    (forIn (m := Id) l ((none : Option β), ()) fun g _ =>
        if p g = true then (ForInStep.done (some x, ()) : Id _)
        else (ForInStep.yield (none, ()) : Id _))
      = (if l.any p then some x else none, ()) := by
  rw [forIn_earlyReturn l p (fun _ => x)]
  cases h : l.find? p with
  | none =>
    have : l.any p = false := by
      rw [List.find?_eq_none] at h
      simpa using h
    simp [this]
  | some a =>
    have : l.any p = true := by
      rw [List.any_eq_true]
      exact ⟨a, List.mem_of_find?_eq_some h, List.find?_some h⟩
    simp [this]

/-- A counting loop `for a in l do if q a then s := s + 1` on `V.int`. -/
theorem forIn_count {α : Type} (l : List α) (q : α → Bool) (s : Int) :
    (forIn (m := Id) l (V.int s) fun a acc =>
        if q a = true then (ForInStep.yield (V.add acc (V.int 1)) : Id _)
        else (ForInStep.yield acc : Id _))
      = V.int (l.foldl (fun acc a => if q a then acc + 1 else acc) s) := by
  induction l generalizing s with
  | nil => rfl
  | cons a l ih =>
    simp only [List.forIn_cons, List.foldl_cons]
    cases h : q a
    · simp only [Bool.false_eq_true, if_false]
      exact ih s
    · simp only [if_true]
      exact ih (s + 1)

/-- A counting fold is the length of a filter. -/
theorem foldl_count_eq_filter {α : Type} (l : List α) (q : α → Bool) (s : Int) :
    List.foldl (fun acc a => if q a = true then acc + 1 else acc) s l = s + ((l.filter q).length : Int) := by
  induction l generalizing s with
  | nil => simp
  | cons a l ih =>
    simp only [List.foldl_cons, List.filter_cons]
    cases h : q a
    · simpa using ih s
    · simp only [if_true, List.length_cons, ih]
      omega

/-- Counting the `V.int`s that are `≥ K` is counting the integers that are. -/
theorem foldl_count_ge_ints (K s : Int) (l : List Int) :
    List.foldl (fun acc (a : V) => if V.ge a (V.int K) = true then acc + 1 else acc) s (l.map V.int)
      = List.foldl (fun acc (a : Int) => if a ≥ K then acc + 1 else acc) s l := by
  rw [List.foldl_map]
  simp only [V.ge_int, decide_eq_true_eq]

end Cpl.Ties
