import Cpl.Gen.Bits
import Cpl.Model.Bits

/-!
# C07 — the translated sources of `bits_to_int`, `int_to_bits`, `binary_rule`, `nks_rule` equal the model, for all inputs

`Cpl.Gen.Bits.*` are regenerated from `/repo/cellpylib/ca_functions.py` on every run (`tools/py2lean_typed.py`: typed
translation into the `Option` monad, `none` = the Python code raised); the theorems of `Cpl/Properties/C07.lean` are
about the hand model (`Cpl/Model/Bits.lean`). Outside the translated subset (primitives recognised by shape, validated
through the correspondence): `list(map(int, bin(n)[2:]))` = `Py.binDigits`, `np.pad(l, (w, 0), 'constant')` =
`padLeftE`, `ndarray.dot` = `Cpl.dot`, Python list indexing = `Py.getIdx`; which exception is raised (the model says
which, the translation only that one is).
-/

namespace Cpl.C07
open Cpl

/-- `Except` to `Option`: forget which exception. -/
def ok? {α : Type} : Except Py.Err α → Option α
  | .ok a => some a
  | .error _ => none

/-! ## Helpers -/

/-- The `for` loop of `bits_to_int` (body always yields) is the model's loop. -/
theorem bitsToInt_loop (l : List Int) (k n : Nat) :
    (forIn (m := Option) (l.zipIdx k) ((n : Nat) : Int) fun t_1 __s =>
        if (t_1.fst != 0) = true then pure (ForInStep.yield (__s + ↑(1 <<< (t_1.snd : Nat))))
        else pure (ForInStep.yield __s))
      = some ((bitsToIntLoop l k n : Nat) : Int) := by
  induction l generalizing k n with
  | nil => rfl
  | cons a l ih =>
    simp only [List.zipIdx_cons, List.forIn_cons, bitsToIntLoop]
    by_cases h : a = 0
    · subst h
      simp only [bne_self_eq_false, Bool.false_eq_true, if_false, ne_eq, not_true_eq_false, pure_bind]
      exact ih (k+1) n
    · have : (a != 0) = true := by simpa using h
      simp only [this, if_true, ne_eq, h, not_false_eq_true, pure_bind]
      have := ih (k+1) (n + 1 <<< k)
      rw [← this]
      rfl

theorem pow_cast (n : Nat) : ((2 : Int) ^ (n : Int).toNat) = ((2 ^ n : Nat) : Int) := by
  simp only [Int.toNat_natCast, Int.natCast_pow]; rfl

theorem toOption_eq_ok? {α : Type} (x : Except Py.Err α) : x.toOption = ok? x := by
  cases x <;> rfl

theorem ok?_bind {α β : Type} (x : Except Py.Err α) (f : α → Except Py.Err β) :
    ok? (x >>= f) = (ok? x >>= fun a => ok? (f a)) := by
  cases x <;> rfl

theorem ok?_pure {α : Type} (a : α) : ok? (pure a : Except Py.Err α) = some a := rfl
theorem ok?_throw {α : Type} (e : Py.Err) : ok? (throw e : Except Py.Err α) = none := rfl

theorem ok?_ite {α : Type} (c : Prop) [Decidable c] (x y : Except Py.Err α) :
    ok? (if c then x else y) = if c then ok? x else ok? y := by
  split <;> rfl

theorem beq_len_false {a b : Nat} (h : ¬ a = b) : ((a : Int) == (b : Int)) = false := by
  simp only [beq_eq_false_iff_ne, ne_eq]; omega

/-! ## The ties -/

/-- **Source tie (C07), `bits_to_int`.** Every bit list (any integers; non-zero = set). -/
theorem bitsToInt_source_tie (bits : List Int) :
    Gen.Bits.bitsToInt bits = some ((bitsToInt bits : Nat) : Int) := by
  unfold Gen.Bits.bitsToInt bitsToInt
  have := bitsToInt_loop bits.reverse 0 0
  simp only [Int.toNat_natCast]

  erw [this]
  rfl

/-- **Source tie (C07), `int_to_bits`.** Every number and width. -/
theorem intToBits_source_tie (num numDigits : Nat) :
    Gen.Bits.intToBits (num : Int) (numDigits : Int) = ok? (intToBits num numDigits) := by
  unfold Gen.Bits.intToBits intToBits padLeftE
  simp only [Int.toNat_natCast, List.length_map]
  by_cases h : numDigits < (Py.binDigits num).length
  · have h' : (numDigits : Int) - ((Py.binDigits num).length : Int) < 0 := by omega
    simp only [h, h', if_true]
    rfl
  · have h' : ¬ (numDigits : Int) - ((Py.binDigits num).length : Int) < 0 := by omega
    have h2 : ((numDigits : Int) - ((Py.binDigits num).length : Int)).toNat = numDigits - (Py.binDigits num).length := by omega
    simp only [h, h', if_false, h2]
    rfl

/-- **Source tie (C07), `binary_rule`.** Every neighbourhood, rule argument (number or bit list), scheme string and
    optional powers-of-two vector: the translated function returns the model's value, and raises exactly when the
    model does. -/
theorem binaryRule_source_tie (nb : List Int) (rule : RuleArg) (scheme : String) (pow : Option (List Int)) :
    Gen.Bits.binaryRule nb rule scheme pow = ok? (binaryRule nb rule (scheme == "nks") pow) := by
  unfold Gen.Bits.binaryRule binaryRule
  cases pow with
  | none =>
    cases rule with
    | num k =>
      simp only [pow_cast, toOption_eq_ok?, ok?_bind, ok?_ite, ok?_pure, bitsToInt_source_tie,
        intToBits_source_tie]
      rfl
    | bits l =>
      simp only [pow_cast, toOption_eq_ok?, ok?_bind, ok?_ite, ok?_pure, ok?_throw, bitsToInt_source_tie]
      by_cases h : l.length = 2 ^ nb.length
      · simp [h]
      · simp only [beq_len_false h]; simp [h]
  | some p =>
    by_cases hp : p.length = nb.length
    · cases rule with
      | num k =>
        simp only [pow_cast, toOption_eq_ok?, ok?_bind, ok?_ite, ok?_pure, ok?_throw, intToBits_source_tie]
        simp [hp]
      | bits l =>
        simp only [pow_cast, toOption_eq_ok?, ok?_bind, ok?_ite, ok?_pure, ok?_throw]
        by_cases h : l.length = 2 ^ nb.length
        · simp [hp, h]
        · simp only [beq_len_false h]; simp [hp, h]
    · cases rule with
      | num k =>
        simp only [pow_cast, toOption_eq_ok?, ok?_bind, ok?_ite, ok?_pure, ok?_throw, intToBits_source_tie]
        simp [hp, beq_len_false hp]
      | bits l =>
        simp only [pow_cast, toOption_eq_ok?, ok?_bind, ok?_ite, ok?_pure, ok?_throw]
        simp [hp, beq_len_false hp]

/-- **Source tie (C07), `nks_rule`.** -/
theorem nksRule_source_tie (nb : List Int) (rule : Nat) :
    Gen.Bits.nksRule nb (RuleArg.num rule) = ok? (nksRule nb rule) := by
  unfold Gen.Bits.nksRule nksRule
  have h := binaryRule_source_tie nb (RuleArg.num rule) "nks" none
  rw [show (("nks" : String) == "nks") = true from by decide] at h
  rw [← h]

end Cpl.C07
