import Cpl.Gen.Bien
import Cpl.Model.Measures

/-!
# C18 — the translated sources of `binary_derivative` and `cyclic_binary_derivative` equal the model, for all binary strings

`Cpl.Gen.Bien.*` are regenerated from `/repo/cellpylib/bien.py` on every run (`tools/py2lean_typed.py`: typed
translation into the `Option` monad, `none` = the Python code raised; a binary string is the list of its digit values,
`int(ch)` the digit, `''.join(str(x) …)` the digit list again, `^` = `Cpl.ixor`); the theorems of
`Cpl/Properties/C18.lean` are about the hand model (`binaryDerivative`, `cyclicBinaryDerivative` in
`Cpl/Model/Measures.lean`, clean structural recursions). The numeric part of `bien` / `tbien` / `ktbien`
(floating point) is not translated; it stays tied by the correspondence.
-/

namespace Cpl.C18tie
open Cpl

/-- A binary string: every digit is 0 or 1. -/
def Binary (s : List Int) : Prop := ∀ d ∈ s, d = 0 ∨ d = 1

/-! ## Helpers -/

theorem ixor_eq_bxor {a b : Int} (ha : a = 0 ∨ a = 1) (hb : b = 0 ∨ b = 1) : ixor a b = bxor a b := by
  rcases ha with rfl | rfl <;> rcases hb with rfl | rfl <;> decide

theorem getIdx_nat {α : Type} (s : List α) (k : Nat) (h : k < s.length) :
    (Py.getIdx s (k : Int)).toOption = some s[k] := by
  unfold Py.getIdx
  have h1 : ¬ ((k : Int) < 0) := by omega
  simp only [h1, if_false, Int.toNat_natCast, List.getElem?_eq_getElem h]
  rfl

theorem getIdx_nat_succ {α : Type} (s : List α) (k : Nat) (h : k + 1 < s.length) :
    (Py.getIdx s ((k : Int) + 1)).toOption = some s[k+1] := by
  have := getIdx_nat s (k+1) h
  simpa using this

theorem bd_loop (s : List Int) (hs : Binary s) (suf pre : List Int) (acc : List Int) (e : s = pre ++ suf) :
    (forIn (m := Option) (suf.zipIdx pre.length) acc fun t_1 __s =>
          have v_result := __s;
          have v_i : Int := ↑t_1.snd;
          have _v_d := t_1.fst;
          if (v_i - 1 == ↑s.length - 2) = true then pure (ForInStep.done v_result)
          else do
            let t_2 ← (Py.getIdx s v_i).toOption
            let t_3 ← (Py.getIdx s (v_i + 1)).toOption
            have v_result : List Int := v_result ++ [ixor t_2 t_3]
            pure (ForInStep.yield v_result))
      = some (acc ++ binaryDerivative suf) := by
  induction suf generalizing pre acc with
  | nil => simp [binaryDerivative]
  | cons a suf ih =>
    have hlen : s.length = pre.length + (suf.length + 1) := by simp [e]
    simp only [List.zipIdx_cons, List.forIn_cons]
    cases suf with
    | nil =>
      have : ((pre.length : Int) - 1 == (s.length : Int) - 2) = true := by
        simp only [beq_iff_eq, hlen, List.length_nil]; omega
      simp [this, binaryDerivative]
    | cons b r =>
      have hne : ((pre.length : Int) - 1 == (s.length : Int) - 2) = false := by
        simp only [beq_eq_false_iff_ne, ne_eq, hlen, List.length_cons]; omega
      have h1 : pre.length < s.length := by simp [hlen]
      have h2 : pre.length + 1 < s.length := by simp [hlen]
      have ea : s[pre.length] = a := by simp [e]
      have eb : s[pre.length + 1] = b := by
        subst e; rw [List.getElem_append_right (by omega)]; simp
      have hab : ixor a b = bxor a b := by
        apply ixor_eq_bxor <;> apply hs <;> simp [e]
      simp only [hne, Bool.false_eq_true, if_false, getIdx_nat s _ h1, getIdx_nat_succ s _ h2, ea, eb,
        Option.bind_eq_bind, Option.bind_some, hab, pure_bind]
      have := ih (pre ++ [a]) (acc ++ [bxor a b]) (by simp [e])
      simp only [List.length_append, List.length_cons, List.length_nil, Nat.zero_add] at this
      refine Eq.trans this ?_
      simp [binaryDerivative]

theorem bind_pure_fst {α β : Type} (o : Option (α × β)) :
    (o >>= fun p => pure p.fst) = o.map Prod.fst := by
  cases o <;> rfl

theorem getIdx_zero {α : Type} (s : List α) (h : 0 < s.length) :
    (Py.getIdx s (0 : Int)).toOption = some s[0] := getIdx_nat s 0 h

theorem cbd_loop (s : List Int) (hs : Binary s) (h0 : Int) (hh : s.head? = some h0) (suf pre : List Int)
    (acc : List Int) (x y : Int) (e : s = pre ++ suf) :
    (forIn (m := Option) (suf.zipIdx pre.length) (acc, x, y) fun t_1 __s =>
          have v_result := __s.fst;
          have v_i : Int := ↑t_1.snd;
          have _v_d := t_1.fst;
          do
          let t_2 ← (Py.getIdx s v_i).toOption
          have v_s : Int := t_2
          have __do_jp : Unit → Int → Option (ForInStep (List Int × Int × Int)) := fun __r v_next_s =>
            have v_result := v_result ++ [ixor v_s v_next_s];
            pure (ForInStep.yield (v_result, v_s, v_next_s))
          if (v_i == ↑s.length - 1) = true then do
              let t_3 ← (Py.getIdx s 0).toOption
              have v_next_s : Int := t_3
              __do_jp () v_next_s
            else do
              let t_4 ← (Py.getIdx s (v_i + 1)).toOption
              have v_next_s : Int := t_4
              __do_jp () v_next_s).map Prod.fst
      = some (acc ++ (match suf with | [] => [] | _ :: _ => binaryDerivative (suf ++ [h0]))) := by
  induction suf generalizing pre acc x y with
  | nil => simp
  | cons a suf ih =>
    have hlen : s.length = pre.length + (suf.length + 1) := by simp [e]
    have h1 : pre.length < s.length := by simp [hlen]
    have ea : s[pre.length] = a := by simp [e]
    have hpos : 0 < s.length := by omega
    have e0 : s[0] = h0 := by
      cases s with
      | nil => simp at hpos
      | cons c t => simpa using hh
    have hh0 : h0 = 0 ∨ h0 = 1 := by
      apply hs; rw [← e0]; exact List.getElem_mem _
    have hha : a = 0 ∨ a = 1 := by apply hs; simp [e]
    simp only [List.zipIdx_cons, List.forIn_cons]
    cases suf with
    | nil =>
      have hc : ((pre.length : Int) == (s.length : Int) - 1) = true := by
        simp only [beq_iff_eq, hlen, List.length_nil]; omega
      have hab : ixor a h0 = bxor a h0 := ixor_eq_bxor hha hh0
      simp [hc, getIdx_nat s _ h1, getIdx_zero s hpos, ea, e0, hab, binaryDerivative]
    | cons b r =>
      have hne : ((pre.length : Int) == (s.length : Int) - 1) = false := by
        simp only [beq_eq_false_iff_ne, ne_eq, hlen, List.length_cons]; omega
      have h2 : pre.length + 1 < s.length := by simp [hlen]
      have eb : s[pre.length + 1] = b := by
        subst e; rw [List.getElem_append_right (by omega)]; simp
      have hab : ixor a b = bxor a b := by
        apply ixor_eq_bxor hha; apply hs; simp [e]
      simp only [hne, Bool.false_eq_true, if_false, getIdx_nat s _ h1, getIdx_nat_succ s _ h2, ea, eb,
        Option.bind_eq_bind, Option.bind_some, hab, pure_bind]
      have := ih (pre ++ [a]) (acc ++ [bxor a b]) a b (by simp [e])
      simp only [List.length_append, List.length_cons, List.length_nil, Nat.zero_add] at this
      refine Eq.trans this ?_
      simp [binaryDerivative]

/-- **Source tie (C18), `binary_derivative`.** For every binary string (any length, including empty and one digit)
    the translated loop with its `break` returns the model's derivative and never raises. -/
theorem binaryDerivative_source_tie (s : List Int) (h : Binary s) :
    Gen.Bien.binaryDerivative s = some (binaryDerivative s) := by
  unfold Gen.Bien.binaryDerivative
  have := bd_loop s h s [] [] rfl
  simp only [List.length_nil, List.nil_append] at this
  simp only [this]
  rfl

/-- **Source tie (C18), `cyclic_binary_derivative`.** -/
theorem cyclicBinaryDerivative_source_tie (s : List Int) (h : Binary s) :
    Gen.Bien.cyclicBinaryDerivative s = some (cyclicBinaryDerivative s) := by
  cases s with
  | nil => rfl
  | cons c t =>
    unfold Gen.Bien.cyclicBinaryDerivative
    have := cbd_loop (c :: t) h c rfl (c :: t) [] [] 0 0 rfl
    simp only [List.length_nil, List.nil_append] at this
    simp only [cyclicBinaryDerivative]
    rw [← this]
    exact bind_pure_fst _

end Cpl.C18tie
