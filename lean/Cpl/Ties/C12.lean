import Cpl.Gen.Objects
import Cpl.Ties.Lemmas

/-!
# C12 — the translated source of `AsynchronousRule` equals the model, for all inputs

`Cpl.Gen.asyncCall` and the helper methods it calls are regenerated from `/repo/cellpylib/ca_functions.py` on
every run (`tools/py2lean.py`, object mode: `Env → AsyncObj → args → V × AsyncObj`); the theorems of
`Cpl/Properties/C12.lean` are about the hand model `AsyncSt.call` / `asyncRule1` / `asyncRule2`
(`Cpl/Model/Rules.lean`). The equalities below are structural: every update order, every bookkeeping state
with `curr` inside the order, every cell, every oracle stream for `np.random.shuffle`.

Outside the translated subset (parameters of the tie): `np.random.shuffle` (an oracle stream), the wrapped
rule's answer (`env.applyRule`), and how NumPy presents the neighbourhood (`env.nb1`, `env.nbI`, shapes).
-/

namespace Cpl.C12
open Cpl Cpl.Gen Cpl.Ties

/-! ## the helper methods as closed expressions -/

theorem shuffle_eq (env : Env) (o : AsyncObj) : Gen.asyncShuffle env o = (V.none, o.shuffle) := rfl

theorem inOrder_eq (env : Env) (o : AsyncObj) (c : V) :
    Gen.asyncInUpdateOrder env o c = (V.bool (V.mem c o.order), o) := rfl

theorem shouldUpdate_eq (env : Env) (o : AsyncObj) (c : V) :
    Gen.asyncShouldUpdate env o c = (V.bool (V.eq c (V.listGet o.order (V.int o.curr))), o) := rfl

/-- `_check_for_end_of_cycle` as an expression. -/
def checkEndObj (o : AsyncObj) : AsyncObj :=
  if o.numApplied = o.order.length then
    let o1 := { o with curr := (V.mod (V.int (o.curr + 1)) (V.int o.order.length)).toInt, numApplied := 0 }
    if o.randomize then o1.shuffle else o1
  else o

theorem checkEnd_eq (env : Env) (o : AsyncObj) : Gen.asyncCheckEnd env o = (V.none, checkEndObj o) := by
  simp only [Gen.asyncCheckEnd, Id.run, shuffle_eq, pure, V.eq_int, V.add_int, V.truthy_bool, V.toInt_int,
    checkEndObj]
  by_cases h : o.numApplied = o.order.length
  · simp only [h, decide_true, if_true]
    cases hr : o.randomize <;> simp
  · simp [h]

/-- `_current_cell_value(n)` as an expression: the middle of a 1-D window, the centre of a 2-D block,
    `TypeError` for any other dimensionality; the object is not touched. -/
def currentValue (env : Env) : V :=
  if env.nbDim = 1 then V.int (env.nb1 (Py.fdiv env.nbLen 2))
  else if env.nbDim = 2 then V.int (env.nbI (Py.fdiv env.nbRows 2) (Py.fdiv env.nbCols 2))
  else V.err

theorem currentValue_eq (env : Env) (o : AsyncObj) : Gen.asyncCurrentValue env o = (currentValue env, o) := by
  simp only [Gen.asyncCurrentValue, Id.run, pure, V.eq_int, currentValue, V.floordiv, V.toInt_int]
  by_cases h1 : env.nbDim = 1
  · simp [h1]
  · by_cases h2 : env.nbDim = 2
    · simp [h1, h2]
    · simp [h1, h2]

/-- `AsynchronousRule.__call__` as an expression over the object state. -/
theorem asyncCall_eq (env : Env) (o : AsyncObj) (c t : V) :
    Gen.asyncCall env o c t =
      let o1 := if V.mem c o.order then { o with numApplied := o.numApplied + 1 } else o
      if V.eq c (V.listGet o1.order (V.int o1.curr)) then (env.applyRule, checkEndObj o1)
      else (currentValue env, checkEndObj o1) := by
  simp only [Gen.asyncCall, Id.run, pure, inOrder_eq, shouldUpdate_eq, checkEnd_eq, currentValue_eq,
    V.truthy_bool, V.add_int, V.toInt_int]
  cases hm : V.mem c o.order <;> simp <;>
    split <;> simp_all

/-! ## presenting a model state to the translated code -/

/-- The model's bookkeeping state (`κ` = cell identity) as the Python object; `enc` renders a cell identity
    (`V.int i` in 1D, `V.pair i j` in 2D). -/
def objOf {κ : Type} (enc : κ → V) (st : AsyncSt κ) : AsyncObj :=
  { order := st.order.map enc, curr := (st.curr : Int), numApplied := (st.numApplied : Int),
    randomize := st.randomize, shuffles := st.shuffles.map (·.map enc) }

/-- A faithful rendering of cell identities: Python's `==` on rendered cells is equality of cells. -/
def Faithful {κ : Type} [DecidableEq κ] (enc : κ → V) : Prop := ∀ a b, V.eq (enc a) (enc b) = decide (a = b)

theorem faithful_nat : Faithful (fun i : Nat => V.int (i : Int)) := by
  intro a b
  simp only [V.eq_int, Int.natCast_inj]

theorem faithful_pair : Faithful (fun p : Nat × Nat => V.pair (p.1 : Int) (p.2 : Int)) := by
  intro a b
  rcases a with ⟨a1, a2⟩; rcases b with ⟨b1, b2⟩
  simp only [V.eq_pair, Prod.mk.injEq, Int.natCast_inj]
  by_cases h1 : a1 = b1 <;> by_cases h2 : a2 = b2 <;> simp [h1, h2]

theorem mem_map_enc {κ : Type} [DecidableEq κ] (enc : κ → V) (h : Faithful enc) (c : κ) (l : List κ) :
    V.mem (enc c) (l.map enc) = decide (c ∈ l) := by
  induction l with
  | nil => simp [V.mem]
  | cons x xs ih =>
    simp only [V.mem, List.map_cons, List.any_cons, List.mem_cons] at ih ⊢
    rw [ih, h c x]
    by_cases hx : c = x <;> simp [hx]

theorem listGet_map_enc {κ : Type} (enc : κ → V) (l : List κ) (i : Nat) (hi : i < l.length) :
    V.listGet (l.map enc) (V.int (i : Int)) = enc l[i] := by
  simp only [V.listGet, V.toInt_int, List.length_map]
  have h0 : ¬ ((i : Int) < 0) := by omega
  have h1 : (0 : Int) ≤ (i : Int) ∧ (i : Int) < (l.length : Int) := by omega
  simp only [h0, if_false, h1, and_self, if_true, Int.toNat_natCast]
  simp [List.getD, hi]

theorem shuffle_objOf {κ : Type} (enc : κ → V) (st : AsyncSt κ) :
    (objOf enc st).shuffle = objOf enc (match st.shuffles with
      | o :: rest => { st with order := o, shuffles := rest }
      | [] => st) := by
  cases hs : st.shuffles with
  | nil => simp [AsyncObj.shuffle, objOf, hs]
  | cons o rest => simp [AsyncObj.shuffle, objOf, hs]

theorem checkEnd_objOf {κ : Type} (enc : κ → V) (st : AsyncSt κ) (hlen : 0 < st.order.length) :
    checkEndObj (objOf enc st) = objOf enc st.checkEnd := by
  unfold checkEndObj AsyncSt.checkEnd
  have hl : (objOf enc st).order.length = st.order.length := by simp [objOf]
  have hn : ((objOf enc st).numApplied = ((objOf enc st).order.length : Int)) ↔ st.numApplied = st.order.length := by
    rw [hl]; simp only [objOf]; omega
  by_cases h : st.numApplied = st.order.length
  · have h' := hn.mpr h
    simp only [h', if_true, h]
    have hmod : (V.mod (V.int ((objOf enc st).curr + 1)) (V.int ((objOf enc st).order.length : Int))).toInt
        = (((st.curr + 1) % st.order.length : Nat) : Int) := by
      rw [hl]
      simp only [V.mod, V.toInt_int, objOf]
      have : ¬ ((st.order.length : Int) = 0) := by omega
      simp only [this, if_false, V.toInt_int]
      rw [Int.fmod_eq_emod_of_nonneg _ (by omega)]
      simp only [Int.natCast_emod, Int.natCast_add, Int.natCast_one]
    rw [hmod]
    cases hr : st.randomize
    · simp [objOf, hr]
    · have hr' : (objOf enc st).randomize = true := by simp [objOf, hr]
      simp only [hr', if_true]
      cases hs : st.shuffles <;> simp [objOf, AsyncObj.shuffle, hs, hr]
  · have h' : ¬ ((objOf enc st).numApplied = ((objOf enc st).order.length : Int)) := fun hh => h (hn.mp hh)
    simp only [h', if_false, h]

/-- **Source tie (C12), bookkeeping.** For every rendering of cell identities that is faithful, every model state
    whose `curr` points inside the order, every cell and timestep: the translated `__call__` returns the
    wrapped rule's answer exactly when the model says the cell is to be updated, the cell's current value
    otherwise, and leaves the object in the model's successor state. -/
theorem async_call_source_tie {κ : Type} [DecidableEq κ] (enc : κ → V) (henc : Faithful enc)
    (env : Env) (st : AsyncSt κ) (c : κ) (t : V) (hcurr : st.curr < st.order.length) :
    Gen.asyncCall env (objOf enc st) (enc c) t
      = (if (st.call c).1 then env.applyRule else currentValue env, objOf enc (st.call c).2) := by
  rw [asyncCall_eq]
  simp only [AsyncSt.call]
  have hmem : V.mem (enc c) (objOf enc st).order = decide (c ∈ st.order) := by
    simp only [objOf]; exact mem_map_enc enc henc c st.order
  rw [hmem]
  by_cases hin : c ∈ st.order
  · simp only [hin, decide_true, if_true]
    have hrw : ({ objOf enc st with numApplied := (objOf enc st).numApplied + 1 } : AsyncObj)
        = objOf enc { st with numApplied := st.numApplied + 1 } := by simp [objOf]
    simp only [hrw]
    have hg : V.listGet (objOf enc st).order (V.int (objOf enc st).curr) = enc st.order[st.curr] := by
      simp only [objOf]; exact listGet_map_enc enc st.order st.curr hcurr
    rw [hg, henc, checkEnd_objOf enc _ (by simpa using Nat.lt_of_le_of_lt (Nat.zero_le _) hcurr)]
    have : (st.order[st.curr]? = some c) ↔ c = st.order[st.curr] := by
      rw [List.getElem?_eq_getElem hcurr]; simp [eq_comm]
    by_cases hc : c = st.order[st.curr] <;> simp [hc, this]
  · simp only [hin, decide_false, Bool.false_eq_true, if_false]
    have hg : V.listGet (objOf enc st).order (V.int (objOf enc st).curr) = enc st.order[st.curr] := by
      simp only [objOf]; exact listGet_map_enc enc st.order st.curr hcurr
    rw [hg, henc, checkEnd_objOf enc _ (Nat.lt_of_le_of_lt (Nat.zero_le _) hcurr)]
    have : (st.order[st.curr]? = some c) ↔ c = st.order[st.curr] := by
      rw [List.getElem?_eq_getElem hcurr]; simp [eq_comm]
    by_cases hc : c = st.order[st.curr] <;> simp [hc, this]

/-! ## the rules built on the bookkeeping -/

/-- How a 1-D neighbourhood (a window of `2r+1` integers) and the wrapped rule's answer are presented. -/
def env1 (n : List Int) (inner : V) : Env :=
  { nbDim := 1, nbLen := (n.length : Int), nb1 := fun i => n.getD i.toNat 0, applyRule := inner }

/-- How a 2-D (possibly masked) block is presented; the centre is never masked. -/
def env2 (n : Nbhd2 Int) (inner : V) : Env :=
  { nbDim := 2, nbLen := (n.length : Int), nbRows := (n.length : Int), nbCols := ((n.getD (n.length / 2) []).length : Int),
    nbI := fun i j => (((n.getD i.toNat []).getD j.toNat none).getD 0), applyRule := inner }

theorem fdiv_two_toNat (k : Nat) : (Py.fdiv (k : Int) 2).toNat = k / 2 := by
  unfold Py.fdiv
  rw [Int.fdiv_eq_ediv_of_nonneg _ (by omega)]
  omega

/-- **Source tie (C12), 1-D rule.** The model's `asyncRule1 inner` is the translated `__call__` with the wrapped
    rule's answer supplied for this call: same returned state, same successor bookkeeping. -/
theorem asyncRule1_source_tie {σ : Type} (inner : Rule1 σ Int) (a : AsyncSt Nat) (s : σ) (n : List Int) (c t : Nat)
    (hcurr : a.curr < a.order.length) :
    Gen.asyncCall (env1 n (V.int (inner s n c t).1)) (objOf (fun i : Nat => V.int (i : Int)) a) (V.int (c : Int)) (V.int (t : Int))
      = (V.int (asyncRule1 inner (a, s) n c t).1,
         objOf (fun i : Nat => V.int (i : Int)) (asyncRule1 inner (a, s) n c t).2.1) := by
  rw [async_call_source_tie (fun i : Nat => V.int (i : Int)) faithful_nat _ a c _ hcurr]
  simp only [asyncRule1]
  cases hc : (a.call c).1
  · simp only [Bool.false_eq_true, if_false, currentValue, env1, if_true, fdiv_two_toNat]
    congr 1
    simp [List.getD, getElem!_def]
    cases n[n.length / 2]? <;> rfl
  · simp [env1]

/-- **Source tie (C12), 2-D rule.** -/
theorem asyncRule2_source_tie {σ : Type} (inner : Rule2 σ Int) (a : AsyncSt (Nat × Nat)) (s : σ) (n : Nbhd2 Int)
    (c : Nat × Nat) (t : Nat) (hcurr : a.curr < a.order.length) :
    Gen.asyncCall (env2 n (V.int (inner s n c t).1)) (objOf (fun p : Nat × Nat => V.pair (p.1 : Int) (p.2 : Int)) a)
        (V.pair (c.1 : Int) (c.2 : Int)) (V.int (t : Int))
      = (V.int (asyncRule2 inner (a, s) n c t).1,
         objOf (fun p : Nat × Nat => V.pair (p.1 : Int) (p.2 : Int)) (asyncRule2 inner (a, s) n c t).2.1) := by
  rw [async_call_source_tie (fun p : Nat × Nat => V.pair (p.1 : Int) (p.2 : Int)) faithful_pair _ a c _ hcurr]
  simp only [asyncRule2]
  cases hc : (a.call c).1
  · simp only [Bool.false_eq_true, if_false, currentValue, env2, if_true, fdiv_two_toNat]
    congr 1
    simp only [List.getD, getElem!_def]
    cases h1 : n[n.length / 2]? with
    | none => simp [default]
    | some row =>
      simp only [Option.getD_some]
      cases h2 : row[row.length / 2]? <;> simp [default]
  · simp [env2]

end Cpl.C12
