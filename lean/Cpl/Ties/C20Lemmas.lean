import Cpl.Gen.Objects
import Cpl.Ties.Lemmas

/-!
# Helper lemmas for the C20 source ties (`Cpl/Ties/C20.lean`)
-/

namespace Cpl.C20
open Cpl Cpl.Gen Cpl.Ties

/-! ## Loops without early exit are folds -/

theorem forIn_yield_id {α β : Type} (l : List α) (f : α → β → β) (init : β) :
    (forIn (m := Id) l init fun a s => (ForInStep.yield (f a s) : Id _)) = l.foldl (fun s a => f a s) init := by
  induction l generalizing init with
  | nil => rfl
  | cons a l ih =>
    simp only [List.forIn_cons, List.foldl_cons]
    exact ih _

theorem ite_yield {β : Type} (c : Prop) [Decidable c] (a b : β) :
    @ite (Id (ForInStep β)) c _ (ForInStep.yield a) (ForInStep.yield b) = (ForInStep.yield (if c then a else b)) := by
  split <;> rfl

/-! ## The update rule -/

/-- An accumulation `V := V + g(q) * x` on `V` is the integer accumulation. -/
theorem foldl_add_mul {α : Type} (l : List α) (g : α → V) (x : α → Int) (a : Int) :
    l.foldl (fun s q => V.add s (V.mul (g q) (V.int (x q)))) (V.int a)
      = V.int (l.foldl (fun acc q => acc + (g q).toInt * x q) a) := by
  induction l generalizing a with
  | nil => rfl
  | cons q l ih =>
    simp only [List.foldl_cons]
    exact ih _

theorem foldl_add_shift {α : Type} (l : List α) (h : α → Int) (a : Int) :
    l.foldl (fun acc q => acc + h q) a = a + l.foldl (fun acc q => acc + h q) 0 := by
  induction l generalizing a with
  | nil => simp
  | cons q l ih =>
    simp only [List.foldl_cons]
    rw [ih (a + h q), ih (0 + h q)]
    omega

/-- `W[i, c]` with NumPy index resolution, for `i ≥ -len(W)`. -/
theorem mat2Get_toInt (W : List (List Int)) (i : Int) (c : Nat) (h : -(W.length : Int) ≤ i) :
    (V.mat2Get W (V.int i) (V.int (c : Int))).toInt = (W.getD (Py.resolve W.length i) []).getD c 0 := by
  unfold V.mat2Get V.pyIndex Py.resolve
  simp only [V.toInt_int]
  by_cases hi : i < 0
  · have h1 : (0 : Int) ≤ i + (W.length : Int) ∧ i + (W.length : Int) < (W.length : Int) := by omega
    simp only [hi, if_true, h1, and_self]
    have h0 : ¬ ((c : Int) < 0) := by omega
    simp only [h0, if_false, Int.toNat_natCast]
    by_cases hc : (c : Int) < ((W.getD (i + (W.length : Int)).toNat []).length : Int)
    · have h2 : (0 : Int) ≤ (c : Int) ∧ (c : Int) < ((W.getD (i + (W.length : Int)).toNat []).length : Int) := by omega
      simp only [h2, and_self, if_true, V.toInt_int]
    · have h2 : ¬ ((0 : Int) ≤ (c : Int) ∧ (c : Int) < ((W.getD (i + (W.length : Int)).toNat []).length : Int)) := by omega
      simp only [h2, if_false]
      have : (W.getD (i + (W.length : Int)).toNat []).length ≤ c := by omega
      generalize W.getD (i + (W.length : Int)).toNat [] = row at this
      simp [V.toInt, List.getD, List.getElem?_eq_none this]
  · simp only [hi, if_false]
    by_cases hN : i < (W.length : Int)
    · have h1 : (0 : Int) ≤ i ∧ i < (W.length : Int) := by omega
      simp only [h1, and_self, if_true]
      have h0 : ¬ ((c : Int) < 0) := by omega
      simp only [h0, if_false, Int.toNat_natCast]
      by_cases hc : (c : Int) < ((W.getD i.toNat []).length : Int)
      · have h2 : (0 : Int) ≤ (c : Int) ∧ (c : Int) < ((W.getD i.toNat []).length : Int) := by omega
        simp only [h2, and_self, if_true, V.toInt_int]
      · have h2 : ¬ ((0 : Int) ≤ (c : Int) ∧ (c : Int) < ((W.getD i.toNat []).length : Int)) := by omega
        simp only [h2, if_false]
        have : (W.getD i.toNat []).length ≤ c := by omega
        generalize W.getD i.toNat [] = row at this
        simp [V.toInt, List.getD, List.getElem?_eq_none this]
    · have h1 : ¬ ((0 : Int) ≤ i ∧ i < (W.length : Int)) := by omega
      simp only [h1, if_false]
      have : W.length ≤ i.toNat := by omega
      simp [V.toInt, List.getD, List.getElem?_eq_none this]

/-! ## Training: matrices as functions, one loop at a time -/

/-- The `N × N` matrix with entries `A i j`. -/
def ofFn (N : Nat) (A : Nat → Nat → Int) : List (List Int) :=
  (List.range N).map fun i => (List.range N).map fun j => A i j

theorem ofFn_congr (N : Nat) (A B : Nat → Nat → Int) (h : ∀ i, i < N → ∀ j, j < N → A i j = B i j) :
    ofFn N A = ofFn N B := by
  unfold ofFn
  apply List.map_congr_left
  intro i hi
  apply List.map_congr_left
  intro j hj
  exact h i (List.mem_range.mp hi) j (List.mem_range.mp hj)

theorem ofFn_length (N : Nat) (A : Nat → Nat → Int) : (ofFn N A).length = N := by
  simp [ofFn]

theorem ofFn_getD (N : Nat) (A : Nat → Nat → Int) (i : Nat) (hi : i < N) :
    (ofFn N A).getD i [] = (List.range N).map fun j => A i j := by
  simp [ofFn, List.getD, hi]

theorem pyIndex_nat (N i : Nat) (hi : i < N) : V.pyIndex N (i : Int) = some i := by
  unfold V.pyIndex
  have h0 : ¬ ((i : Int) < 0) := by omega
  have h1 : (0 : Int) ≤ (i : Int) ∧ (i : Int) < (N : Int) := by omega
  simp only [h0, if_false, h1, and_self, if_true, Int.toNat_natCast]

theorem mat2Get_ofFn (N : Nat) (A : Nat → Nat → Int) (i j : Nat) (hi : i < N) (hj : j < N) :
    V.mat2Get (ofFn N A) (V.int (i : Int)) (V.int (j : Int)) = V.int (A i j) := by
  unfold V.mat2Get
  simp only [V.toInt_int, ofFn_length, pyIndex_nat N i hi, ofFn_getD N A i hi, List.length_map, List.length_range,
    pyIndex_nat N j hj]
  simp [List.getD, hj]

theorem set_map_range {α : Type} (N : Nat) (f : Nat → α) (j : Nat) (x : α) :
    ((List.range N).map f).set j x = (List.range N).map (fun j' => if j' = j then x else f j') := by
  apply List.ext_getElem?
  intro a
  simp only [List.getElem?_set, List.getElem?_map, List.length_map, List.length_range]
  by_cases h : j = a
  · subst h
    by_cases h2 : j < N
    · simp [h2]
    · simp [h2]
  · have h' : ¬ a = j := fun e => h e.symm
    simp only [h, if_false]
    by_cases h2 : a < N
    · simp [h2, h']
    · simp [h2]

theorem mat2Set_ofFn (N : Nat) (A : Nat → Nat → Int) (i j : Nat) (hi : i < N) (hj : j < N) (x : V) :
    V.mat2Set (ofFn N A) (V.int (i : Int)) (V.int (j : Int)) x
      = ofFn N (fun i' j' => if i' = i ∧ j' = j then x.toInt else A i' j') := by
  unfold V.mat2Set
  simp only [V.toInt_int, ofFn_length, pyIndex_nat N i hi, ofFn_getD N A i hi, List.length_map, List.length_range,
    pyIndex_nat N j hj]
  unfold ofFn
  rw [set_map_range, set_map_range]
  apply List.map_congr_left
  intro a _
  by_cases h : a = i
  · subst h
    simp
  · simp [h]

/-- One execution of the body of the innermost loop of `train`. -/
def stepObj (p : List Int) (i j : Nat) (s : HopObj) : HopObj :=
  if V.eq (V.int (i : Int)) (V.int (j : Int)) = true then
    { W := V.mat2Set s.W (V.int (i : Int)) (V.int (j : Int)) (V.int 0), r := s.r }
  else
    { W := V.mat2Set s.W (V.int (i : Int)) (V.int (j : Int))
        (V.add (V.mat2Get s.W (V.int (i : Int)) (V.int (j : Int)))
          (V.mul (V.intsGet p (V.int (i : Int))) (V.intsGet p (V.int (j : Int))))), r := s.r }

/-- The entries after one more pattern. -/
def newA (p : List Int) (A : Nat → Nat → Int) : Nat → Nat → Int :=
  fun i j => if i = j then 0 else A i j + p.getD i 0 * p.getD j 0

theorem intsGet_nat (p : List Int) (i : Nat) (hi : i < p.length) :
    V.intsGet p (V.int (i : Int)) = V.int (p.getD i 0) := by
  unfold V.intsGet
  have h0 : ¬ ((i : Int) < 0) := by omega
  have h1 : (0 : Int) ≤ (i : Int) ∧ (i : Int) < (p.length : Int) := by omega
  simp only [V.toInt_int, h0, if_false, h1, and_self, if_true, Int.toNat_natCast]

theorem stepObj_ofFn (p : List Int) (N : Nat) (hp : p.length = N) (A : Nat → Nat → Int) (r : Int)
    (i j : Nat) (hi : i < N) (hj : j < N) :
    stepObj p i j { W := ofFn N A, r := r }
      = { W := ofFn N (fun i' j' => if i' = i ∧ j' = j then newA p A i j else A i' j'), r := r } := by
  unfold stepObj newA
  simp only [V.eq_int, decide_eq_true_eq, Int.natCast_inj, mat2Set_ofFn N A i j hi hj, mat2Get_ofFn N A i j hi hj,
    intsGet_nat p i (by omega), intsGet_nat p j (by omega), V.mul_int, V.add_int, V.toInt_int]
  by_cases h : i = j
  · simp only [h, if_true]
  · simp only [h, if_false]

theorem inner_loop (p : List Int) (N : Nat) (hp : p.length = N) (A : Nat → Nat → Int) (r : Int)
    (i : Nat) (hi : i < N) (k : Nat) (hk : k ≤ N) :
    (List.range k).foldl (fun s j => stepObj p i j s) { W := ofFn N A, r := r }
      = { W := ofFn N (fun i' j' => if i' = i ∧ j' < k then newA p A i' j' else A i' j'), r := r } := by
  induction k with
  | zero => simp
  | succ k ih =>
    rw [List.range_succ, List.foldl_append, ih (by omega)]
    simp only [List.foldl_cons, List.foldl_nil]
    rw [stepObj_ofFn p N hp _ r i k hi (by omega)]
    congr 2
    funext i' j'
    simp only [newA]
    grind

theorem outer_loop (p : List Int) (N : Nat) (hp : p.length = N) (A : Nat → Nat → Int) (r : Int)
    (k : Nat) (hk : k ≤ N) :
    (List.range k).foldl (fun s i => (List.range N).foldl (fun s j => stepObj p i j s) s) { W := ofFn N A, r := r }
      = { W := ofFn N (fun i' j' => if i' < k ∧ j' < N then newA p A i' j' else A i' j'), r := r } := by
  induction k with
  | zero => simp
  | succ k ih =>
    rw [List.range_succ, List.foldl_append, ih (by omega)]
    simp only [List.foldl_cons, List.foldl_nil]
    rw [inner_loop p N hp _ r k (by omega) N (Nat.le_refl N)]
    congr 2
    funext i' j'
    simp only [newA]
    grind

/-- Presenting one pattern adds its outer product off the diagonal. -/
theorem pattern_step (p : List Int) (N : Nat) (hp : p.length = N) (A : Nat → Nat → Int) (r : Int) :
    (List.range N).foldl (fun s i => (List.range N).foldl (fun s j => stepObj p i j s) s) { W := ofFn N A, r := r }
      = { W := ofFn N (newA p A), r := r } := by
  rw [outer_loop p N hp A r N (Nat.le_refl N)]
  congr 1
  apply ofFn_congr
  intro i hi j hj
  simp only [hi, hj, and_self, if_true]

/-- The Hebbian entries of a list of patterns (zero diagonal). -/
def hebbA (ps : List (List Int)) : Nat → Nat → Int :=
  fun i j => if i = j then 0 else ps.foldl (fun acc p => acc + p.getD i 0 * p.getD j 0) 0

theorem newA_hebbA (p : List Int) (ps : List (List Int)) : newA p (hebbA ps) = hebbA (ps ++ [p]) := by
  funext i j
  simp only [newA, hebbA, List.foldl_append, List.foldl_cons, List.foldl_nil]
  split <;> simp_all

theorem all_patterns (N : Nat) (r : Int) (P : List (List Int)) (hP : ∀ p ∈ P, p.length = N) (ps : List (List Int)) :
    P.foldl (fun s p => (List.range p.length).foldl
        (fun s i => (List.range p.length).foldl (fun s j => stepObj p i j s) s) s) { W := ofFn N (hebbA ps), r := r }
      = { W := ofFn N (hebbA (ps ++ P)), r := r } := by
  induction P generalizing ps with
  | nil => simp
  | cons p P ih =>
    have hp : p.length = N := hP p (List.mem_cons_self)
    simp only [List.foldl_cons]
    rw [hp, pattern_step p N hp, newA_hebbA, ih (fun q hq => hP q (List.mem_cons_of_mem _ hq))]
    simp

theorem zeros2_eq (N : Nat) : V.zeros2 (V.int (N : Int)) (V.int (N : Int)) = ofFn N (hebbA []) := by
  simp only [V.zeros2, V.toInt_int, Int.toNat_natCast, ofFn, hebbA, List.foldl_nil, ite_self]
  have hrow : List.replicate N (0 : Int) = List.map (fun _ => (0 : Int)) (List.range N) := by
    apply List.ext_getElem <;> simp
  rw [← hrow]
  apply List.ext_getElem <;> simp

theorem hopfieldTrain_eq (P : List (List Int)) :
    hopfieldTrain P = ofFn ((P.head?.map List.length).getD 0) (hebbA P) := rfl

theorem head_length (P : List (List Int)) : (P.getD 0 []).length = (P.head?.map List.length).getD 0 := by
  cases P <;> rfl

theorem hopTrain_eq_foldl (env : Env) (o : HopObj) (P : List (List Int)) :
    Gen.hopTrain env o P = (V.none, P.foldl (fun s p => (List.range p.length).foldl
        (fun s i => (List.range p.length).foldl (fun s j => stepObj p i j s) s) s)
        { W := V.zeros2 (V.int ((P.getD 0 []).length : Int)) (V.int ((P.getD 0 []).length : Int)), r := o.r }) := by
  simp only [Gen.hopTrain, Id.run, pure, bind]
  simp only [ite_yield]
  simp only [forIn_yield_id, V.toInt_int, Int.toNat_natCast]
  rfl

end Cpl.C20
