import Cpl.Gen.EntropyFull
import Cpl.Ties.C16

/-!
# C16 — `shannon_entropy` as written equals the model's `shannon`, in every arithmetic

`Cpl.Gen.EntropyFull.shannonEntropy` is regenerated on every run by `tools/py2lean_comp.py` from
`/repo/cellpylib/entropy.py: shannon_entropy`, whole: the distinct symbols, the probabilities `float(count) / len`, the terms
`p * math.log(p, 2.0)`, `-sum([...])`, `+ 0` — floating-point operations written over the abstract arithmetic record `Num F`.
The theorem holds **for every `N : Num F`**: for `floatNum` (the driver) and for `realNum` (`Cpl/Properties/C16.lean`) alike.
`average_cell_entropy`, `mutual_information` and the BiEntropy family call this function.

Outside: that CPython's float operations and `math.log` are `floatNum`'s (compared within 1e-9 on every run); symbols as
integers; `joint_shannon_entropy` (NumPy).
-/

namespace Cpl.C16tie
open Cpl

/-- **Source tie (C16), `shannon_entropy`.** For every arithmetic and every sequence of symbols the translated function is
    the model's `shannon`. -/
theorem shannonEntropy_source_tie {F : Type} (N : Num F) (xs : List Int) :
    Gen.EntropyFull.shannonEntropy N xs = shannon N xs := by
  unfold Gen.EntropyFull.shannonEntropy shannon
  have hd : pyDistinct xs = distinctSyms xs := shannonSymbols_source_tie xs
  simp only [hd, Int.toNat_natCast, symCounts, List.map_map, Function.comp_def]

/-- **Source tie (C16), `mutual_information`.** `H(X) + H(Y) − H(X, Y)` as written, for every arithmetic. -/
theorem mutualInformation_source_tie {F : Type} (N : Num F) (xs ys : List Int) :
    Gen.EntropyFull.mutualInformation N xs ys = mutualInformation N xs ys := rfl

end Cpl.C16tie
