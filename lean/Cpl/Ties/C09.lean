import Cpl.Ties.C03

/-!
# C09 — `_get_memoized` as written calls the rule at most once per neighbourhood content

The same translated function as in `Ties/C03.lean` (`Cpl.Gen.Memo.getMemoized`, regenerated from
`/repo/cellpylib/ca_functions.py: _get_memoized` on every run), read for the call-count clause of C09: a hit returns the stored
value and leaves table and rule state untouched (the rule is not invoked); a miss invokes the rule exactly once and stores
what it returned under the neighbourhood's contents.
-/

namespace Cpl.C09tie
open Cpl

/-- **Source tie (C09), hit.** A neighbourhood whose contents are in the table: the stored value, the same table, the same
    rule state — the user's rule is not invoked. -/
theorem getMemoized_hit {σ : Type} (f : σ → List Int → Int → Int → Int × σ) (n : List Int) (c t : Int)
    (tbl : List (List Int × Int)) (s : σ) (v : Int) (h : tbl.lookup n = some v) :
    Gen.Memo.getMemoized f n c t tbl s = (v, tbl, s) := by
  unfold Gen.Memo.getMemoized
  simp [h]

/-- **Source tie (C09), miss.** A neighbourhood whose contents are not in the table: the rule is invoked once, with exactly
    `(n, c, t)`, its result is returned and afterwards found under `n`. -/
theorem getMemoized_miss {σ : Type} (f : σ → List Int → Int → Int → Int × σ) (n : List Int) (c t : Int)
    (tbl : List (List Int × Int)) (s : σ) (h : tbl.lookup n = none) :
    let g := Gen.Memo.getMemoized f n c t tbl s
    g.1 = (f s n c t).1 ∧ g.2.2 = (f s n c t).2 ∧ g.2.1.lookup n = some (f s n c t).1 := by
  unfold Gen.Memo.getMemoized
  simp only [h, Option.isSome_none, Bool.false_eq_true, if_false]
  refine ⟨trivial, trivial, ?_⟩
  simp only [dictSet, C03tie.any_false_of_lookup_none tbl n h, Bool.false_eq_true, if_false]
  rw [C03tie.lookup_append_absent tbl n n _ h]
  simp

/-- The model's function agrees (restated from `Ties/C03.lean`). -/
theorem getMemoized_source_tie {σ : Type} (rule : Rule1 σ Int) (n : List Int) (c t : Nat) (tbl : MemoTable Int) (s : σ) :
    let g := Gen.Memo.getMemoized (fun s n c t => rule s n c.toNat t.toNat) n (c : Int) (t : Int) tbl s
    let m := Cpl.getMemoized rule n c t tbl s
    g.1 = m.1 ∧ g.2.2 = m.2.2 ∧ ∀ k, g.2.1.lookup k = m.2.1.lookup k :=
  C03tie.getMemoized_source_tie rule n c t tbl s

end Cpl.C09tie
