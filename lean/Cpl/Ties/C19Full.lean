import Cpl.Ties.C19

/-!
# C19 — `apen` as written (after the dispatch on the input form) equals the model's `apen`, in every arithmetic

`Cpl.Gen.Apen.phiFull` / `apenFull` put the translated countable parts of `phi` (`Ties/C19.lean`) together along the two
floating-point lines of the source — `C = [count / (N - m + 1.0) for x_i in x]`, `(1 / (N - m + 1.0)) * sum(np.log(C))` — and
the final `abs(phi(m + 1) - phi(m))`, over the abstract arithmetic record `Num F`. The theorem holds **for every `N`**: for
`floatNum` (the driver) and for `realNum` (`Cpl/Properties/C19.lean`) alike, for every integer sequence, `1 ≤ m ≤ len`, `r`.

Outside: that NumPy's / CPython's float operations are `floatNum`'s (compared within 1e-9 on every run); `N - m + 1.0` is read
as the whole number `N - m + 1` (exact below 2^53); the dispatch on the input form; a fractional `r`.
-/

namespace Cpl.C19tie
open Cpl

theorem phiFull_source_tie {F : Type} (N : Num F) (u : List Int) (k : Nat) (r : Int) (hk : 1 ≤ k) (hk2 : k ≤ u.length + 1) :
    Gen.Apen.phiFull N u r (k : Int) = some (phi N u k r) := by
  unfold Gen.Apen.phiFull phi
  have hc := phi_counts_source_tie u k r hk
  rw [phiWindows_source_tie] at hc ⊢
  simp only [Option.bind_eq_bind, Option.bind_some] at hc ⊢
  rw [hc, phiDenoms_source_tie u k hk2]
  simp [List.map_map, Function.comp_def]

/-- **Source tie (C19), `apen`.** For every arithmetic, every integer sequence, window length `1 ≤ m ≤ len` and filtering
    level the translated function returns the model's `apen` and does not raise. -/
theorem apenFull_source_tie {F : Type} (N : Num F) (u : List Int) (m : Nat) (r : Int) (hm : 1 ≤ m) (hm2 : m ≤ u.length) :
    Gen.Apen.apenFull N u (m : Int) r = some (apen N u m r) := by
  unfold Gen.Apen.apenFull apen
  rw [phiArgs_source_tie]
  simp only
  rw [phiFull_source_tie N u (m + 1) r (by omega) (by omega), phiFull_source_tie N u m r hm (by omega)]
  rfl

end Cpl.C19tie
