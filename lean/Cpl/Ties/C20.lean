import Cpl.Gen.Objects
import Cpl.Ties.Lemmas
import Cpl.Ties.C20Lemmas

/-!
# C20 — the translated source of `HopfieldNet.train` / `HopfieldNet._rule` equals the model, for all inputs

`Cpl.Gen.hopTrain` and `Cpl.Gen.hopRule` are regenerated from `/repo/cellpylib/hopfield_net.py` on every run
(`tools/py2lean.py`, object mode); the theorems of `Cpl/Properties/C20.lean` are about the hand model
`hopfieldTrain` / `hopfieldRule` (`Cpl/Model/Rules.lean`). Outside the translated subset: NumPy's fixed-width
`int32` arithmetic (the model and the translation both use unbounded integers; the harness exercises widths),
and how NumPy presents the window (`env.nbList`, `env.nbLen`).
-/

namespace Cpl.C20
open Cpl Cpl.Gen Cpl.Ties

/-- How a window of integers is presented to the translated `_rule`. -/
def envHop (n : List Int) : Env := { nbDim := 1, nbLen := (n.length : Int), nbList := n, nb1 := fun i => n.getD i.toNat 0 }

/-- **Source tie (C20), training.** For every training set whose patterns all have the length of the first one
    (Python raises for an empty set; the translation and the model both give the empty matrix there), and whatever the
    net held before: the translated `train` leaves exactly the model's Hebbian matrix (zero diagonal) in `_W`
    and does not touch `_r`. -/
theorem train_source_tie (env : Env) (o : HopObj) (P : List (List Int))
    (hlen : ∀ p ∈ P, p.length = (P.head?.map List.length).getD 0) :
    Gen.hopTrain env o P = (V.none, { o with W := hopfieldTrain P }) := by
  rw [hopTrain_eq_foldl, head_length, zeros2_eq, all_patterns _ o.r P hlen [], hopfieldTrain_eq]
  simp

/-- **Source tie (C20), update rule.** For every weight matrix, radius not larger than the matrix, window and
    cell index: the translated `_rule` returns the model's sign of the local field and leaves the net unchanged. -/
theorem rule_source_tie (W : List (List Int)) (r : Nat) (n : List Int) (c : Nat) (t : V)
    (hr : r ≤ W.length) :
    Gen.hopRule (envHop n) { W := W, r := (r : Int) } (V.int (c : Int)) t
      = (V.int (hopfieldRule W r n c), { W := W, r := (r : Int) }) := by
  simp only [Gen.hopRule, Id.run, pure, bind]
  simp only [forIn_yield_id, envHop, V.toInt_int, V.sub_int, V.add_int]
  have hfd : V.floordiv (V.int (n.length : Int)) (V.int 2) = V.int ((n.length / 2 : Nat) : Int) := by
    simp only [V.floordiv, V.toInt_int, Py.fdiv]
    rw [Int.fdiv_eq_ediv_of_nonneg _ (by omega)]
    simp
  simp only [hfd, V.add_int, V.toInt_int]
  have hL : Py.slice n 0 ((n.length / 2 : Nat) : Int) = n.take (n.length / 2) := by
    simp only [Py.slice]
    have h0 : ¬ ((0 : Int) < 0) := by omega
    have h1 : ¬ (((n.length / 2 : Nat) : Int) < 0) := by omega
    simp only [h0, h1, if_false]
    have e1 : (min (0 : Int) (n.length : Int)).toNat = 0 := by omega
    have e2 : (min ((n.length / 2 : Nat) : Int) (n.length : Int)).toNat = n.length / 2 := by omega
    rw [e1, e2, List.drop_zero]
  have hR : Py.sliceFrom n (((n.length / 2 : Nat) : Int) + 1) = n.drop (n.length / 2 + 1) := by
    simp only [Py.sliceFrom]
    have h1 : ¬ (((n.length / 2 : Nat) : Int) + 1 < 0) := by omega
    simp only [h1, if_false]
    by_cases hn : n.length = 0
    · have : n = [] := List.eq_nil_of_length_eq_zero hn
      subst this
      rfl
    · have e2 : (min (((n.length / 2 : Nat) : Int) + 1) (n.length : Int)).toNat = n.length / 2 + 1 := by omega
      rw [e2]
  rw [hL, hR]
  by_cases hn : n.length = 0
  · have : n = [] := List.eq_nil_of_length_eq_zero hn
    subst this
    simp [hopfieldRule]
  have hmod : ∀ j : Nat, V.mod (V.int ((c : Int) + (j : Int) + 1)) (V.int (n.length : Int))
      = V.int (((c + j + 1) % n.length : Nat) : Int) := by
    intro j
    have h0 : ¬ ((n.length : Int) = 0) := by omega
    simp only [V.mod, V.toInt_int, h0, if_false]
    rw [Int.fmod_eq_emod_of_nonneg _ (by omega)]
    congr 1
  simp only [hmod]
  rw [foldl_add_mul _ (fun a : Int × Nat => V.mat2Get W (V.int ((c : Int) - (r : Int) + (a.snd : Int))) (V.int (c : Int))) (fun a => a.fst),
    foldl_add_mul _ (fun a : Int × Nat => V.mat2Get W (V.int (((c + a.snd + 1) % n.length : Nat) : Int)) (V.int (c : Int))) (fun a => a.fst)]
  have hl : ∀ j : Nat, (V.mat2Get W (V.int ((c : Int) - (r : Int) + (j : Int))) (V.int (c : Int))).toInt
      = (W.getD (Py.resolve W.length ((c : Int) - (r : Int) + (j : Int))) []).getD c 0 :=
    fun j => mat2Get_toInt W _ c (by omega)
  have hrr : ∀ j : Nat, (V.mat2Get W (V.int (((c + j + 1) % n.length : Nat) : Int)) (V.int (c : Int))).toInt
      = (W.getD ((c + j + 1) % n.length) []).getD c 0 := by
    intro j
    rw [mat2Get_toInt W _ c (by omega)]
    have h0 : ¬ ((((c + j + 1) % n.length : Nat) : Int) < 0) := by omega
    simp only [Py.resolve, h0, if_false, Int.toNat_natCast]
  simp only [hl, hrr]
  rw [foldl_add_shift (List.drop (n.length / 2 + 1) n).zipIdx]
  simp only [hopfieldRule, V.ge_int, decide_eq_true_eq]
  split <;> rfl

end Cpl.C20
