import Cpl.Gen.Strides
import Cpl.Model.Evolve1D
import Cpl.Ties.C19Lemmas

/-!
# C01 — `_index_strides` as written equals the model's index table, for every ring size and radius

`Cpl.Gen.Strides.indexStrides` is regenerated on every run by `tools/py2lean_comp.py` from
`/repo/cellpylib/ca_functions.py: _index_strides` read on a 1-D integer array: the padded array
`np.concatenate((arr[-w // 2 + 1:], arr, arr[:w // 2]))`, the shape `(arr.shape[-1] - w + 1, w)`, equal element strides, and
`as_strided` as the view whose entry `(i, j)` is `arr[i + j]` (`Cpl.stridedView`; `none` if NumPy would raise or the view
would leave the buffer). The theorems of `Cpl/Properties/C01.lean` ("the strided index table is `(c − r + j) mod N`",
`cells[strides]` = the ring windows) are about the model's `indexStrides N r` (`Cpl/Model/Evolve1D.lean`).

Outside the translated subset (modelled; validated through the correspondence on every run): that `as_strided` with these
strides *is* that view, `cells[strides]` (fancy indexing), the rule loop, `np.array(...)` of the results, memoization.
-/

namespace Cpl.C01tie
open Cpl Py

theorem map_sliceFrom {α β : Type} (f : α → β) (l : List α) (i : Int) :
    sliceFrom (l.map f) i = (sliceFrom l i).map f := by
  simp [sliceFrom, List.map_drop]

theorem map_sliceTo {α β : Type} (f : α → β) (l : List α) (i : Int) :
    sliceTo (l.map f) i = (sliceTo l i).map f := by
  simp [sliceTo, List.map_take]

theorem row_tie (e : List Nat) (w i : Nat) (hi : i + w ≤ e.length) :
    List.mapM (fun j : Int => (Py.getIdx (e.map Int.ofNat) ((i : Int) + j)).toOption) (pyRange 0 (w : Int) 1)
      = some (((e.drop i).take w).map Int.ofNat) := by
  rw [C10tie.pyRange_unit]
  rw [C19tie.mapM_some _ (fun v : Int => (e.map Int.ofNat).getD ((i : Int) + v).toNat 0)]
  · congr 1
    apply List.ext_getElem?
    intro j
    by_cases hj : j < w
    · have h2 : i + j < e.length := by omega
      have h3 : ((i : Int) + (j : Int)).toNat = i + j := by omega
      simp [hj, List.getElem?_drop, h2, h3]
    · simp [hj, List.getElem?_take]
  · intro v hv
    simp only [List.mem_map, List.mem_range] at hv
    obtain ⟨j, hj, rfl⟩ := hv
    have h5 : i + j < e.length := by omega
    have h2 : i + j < (e.map Int.ofNat).length := by simp; omega
    have h3 : ((i : Int) + (j : Int)).toNat = i + j := by omega
    have h4 : (i : Int) + Int.ofNat j = ((i + j : Nat) : Int) := by simp
    rw [h4, C19tie.getIdx_nat _ (i + j) h2]
    simp [h3, h5]

theorem stridedView_tie (e : List Nat) (rows w : Nat) (h : rows + w ≤ e.length + 1) :
    stridedView (e.map Int.ofNat) (rows : Int) (w : Int)
      = some ((List.range rows).map fun i => ((e.drop i).take w).map Int.ofNat) := by
  unfold stridedView
  have hneg : ¬ ((rows : Int) < 0 ∨ (w : Int) < 0) := by omega
  rw [if_neg hneg, C10tie.pyRange_unit rows]
  rw [C19tie.mapM_some _ (fun v : Int => ((e.drop v.toNat).take w).map Int.ofNat)]
  · simp [List.map_map, Function.comp_def]
  · intro v hv
    simp only [List.mem_map, List.mem_range] at hv
    obtain ⟨i, hi, rfl⟩ := hv
    have := row_tie e w i (by omega)
    simpa using this

/-- **Source tie (C01).** For every ring size `N` and radius `r ≤ N`, `_index_strides(np.arange(N), 2r + 1)` as written
    builds exactly the model's index table `indexStrides N r` — the table whose row `c` the theorems of C01 identify with
    the ring window `(c − r + j) mod N` — and neither raises nor reads outside the padded array. -/
theorem indexStrides_source_tie (N r : Nat) (hr : r ≤ N) :
    Gen.Strides.indexStrides ((List.range N).map Int.ofNat) ((2 * r + 1 : Nat) : Int)
      = some ((indexStrides N r).map fun row => row.map Int.ofNat) := by
  unfold Gen.Strides.indexStrides indexStrides
  simp only [map_sliceFrom, map_sliceTo, ← List.map_append]
  have hw : (((2 * r + 1 : Nat) : Int)) = 2 * (r : Int) + 1 := by omega
  rw [hw]
  have hf : fdiv (2 * (r : Int) + 1) 2 = (r : Int) := by
    unfold fdiv; rw [Int.fdiv_eq_ediv_of_nonneg _ (by omega)]; omega
  have hl : (sliceTo (List.range N) (fdiv (2 * (r : Int) + 1) 2)).length = r := by
    rw [hf]; simp [sliceTo]; omega
  generalize sliceFrom (List.range N) (fdiv (-(2 * (r : Int) + 1)) 2 + 1) = pre at *
  generalize hpost : sliceTo (List.range N) (fdiv (2 * (r : Int) + 1) 2) = post at *
  have hlen : (pre ++ List.range N ++ post).length = pre.length + N + r := by simp [hl]; omega
  generalize hext : pre ++ List.range N ++ post = ext at *
  have hrows : (((List.map Int.ofNat ext).length : Nat) : Int) - (2 * (r : Int) + 1) + 1
      = ((ext.length + 1 - (2 * r + 1) : Nat) : Int) := by
    simp only [List.length_map]; omega
  rw [hrows, ← hw, stridedView_tie ext _ _ (by omega)]
  simp [List.map_map, Function.comp_def]

/-- Non-vacuity (a test): `N = 5`, `r = 1`. -/
example : Gen.Strides.indexStrides [0, 1, 2, 3, 4] 3 = some [[4, 0, 1], [0, 1, 2], [1, 2, 3], [2, 3, 4], [3, 4, 0]] := by
  decide

end Cpl.C01tie
