import Cpl.Gen.Entropy
import Cpl.Model.Measures
import Cpl.Ties.C19Lemmas

/-!
# C16 — the countable part of `shannon_entropy` equals the model, for all symbol sequences

`Cpl.Gen.Entropy.*` are regenerated on every run by `tools/py2lean_comp.py` from `/repo/cellpylib/entropy.py`:
`symbols = dict.fromkeys(list(string))`, the numerators `float(string.count(symbol))` and the denominator `len(string)` of
`symbol_probabilities`. The theorems of `Cpl/Properties/C16.lean` are about the model's `distinctSyms`, `symCounts`,
`shannon` (`Cpl/Model/Measures.lean`); the theorems below prove the translated source equal to those definitions for
every sequence (symbols are integers here: the harness codes the Python symbols injectively).

Outside the translated subset (modelled; validated through the correspondence on every run): `math.log(p, 2.0)`, the
floating-point quotient, sum and negation, `+ 0`; `joint_shannon_entropy` (NumPy), the column extraction of the two
averages. `pyDistinct` (an insertion-ordered dict filled from left to right) is the reading of `dict.fromkeys`.
-/

namespace Cpl.C16tie
open Cpl

theorem foldl_distinct (l acc : List Int) :
    l.foldl (fun acc x => if acc.contains x then acc else acc ++ [x]) acc
      = acc ++ (distinctSyms l).filter (fun y => !acc.contains y) := by
  induction l generalizing acc with
  | nil => simp [distinctSyms]
  | cons x xs ih =>
    simp only [List.foldl_cons, distinctSyms]
    by_cases hx : acc.contains x = true
    · rw [if_pos hx, ih]
      congr 1
      simp only [List.filter_cons, hx, Bool.not_true, Bool.false_eq_true, if_false, List.filter_filter]
      apply List.filter_congr
      intro y _
      by_cases hy : acc.contains y = true
      · have hm : y ∈ acc := by simpa using hy
        simp [hm]
      · have : y ≠ x := by rintro rfl; exact hy hx
        have hm : ¬ y ∈ acc := by simpa using hy
        simp [hm, this]
    · rw [if_neg hx, ih]
      simp only [List.filter_cons, Bool.not_eq_true] at hx ⊢
      simp only [hx, Bool.not_false, if_true, List.append_assoc, List.singleton_append, List.filter_filter]
      congr 2
      apply List.filter_congr
      intro y _
      by_cases h : y = x <;> simp [h, Bool.and_comm]

/-- **Source tie (C16), symbols.** `dict.fromkeys(list(string))` yields the model's distinct symbols in
    first-occurrence order. -/
theorem shannonSymbols_source_tie (xs : List Int) : Gen.Entropy.shannonSymbols xs = distinctSyms xs := by
  unfold Gen.Entropy.shannonSymbols pyDistinct
  rw [foldl_distinct]
  simp

/-- **Source tie (C16), counts.** The numerators of `symbol_probabilities` are the model's symbol counts, in the
    model's order, and the denominator is the length of the sequence. -/
theorem shannonCounts_source_tie (xs : List Int) :
    Gen.Entropy.shannonCounts xs (Gen.Entropy.shannonSymbols xs) = some ((symCounts xs).map fun p => ((p.2 : Nat) : Int))
    ∧ (symCounts xs).map (·.1) = Gen.Entropy.shannonSymbols xs
    ∧ Gen.Entropy.shannonDenom xs = ((xs.length : Nat) : Int) := by
  refine ⟨?_, ?_, rfl⟩
  · rw [shannonSymbols_source_tie]
    unfold Gen.Entropy.shannonCounts
    have hm := C19tie.mapM_some (fun v_symbol : Int => (pure ((List.count v_symbol xs : Nat) : Int) : Option Int))
      (fun s => ((xs.count s : Nat) : Int)) (distinctSyms xs) (fun _ _ => rfl)
    rw [hm]
    simp [symCounts, List.map_map, Function.comp_def]
  · rw [shannonSymbols_source_tie]
    simp [symCounts, List.map_map, Function.comp_def]

/-- Non-vacuity: a concrete sequence (a test). -/
example : Gen.Entropy.shannonCounts [3, 1, 3, 3, 2, 1] (Gen.Entropy.shannonSymbols [3, 1, 3, 3, 2, 1]) = some [3, 2, 1] := by
  decide

end Cpl.C16tie
