import Cpl.Gen.RuleTables
import Cpl.Model.RuleTables
import Cpl.Ties.C10Lemmas

/-!
# C17 — the countable expressions of `random_rule_table` / `table_walk_through` equal the model

`Cpl.Gen.RuleTables.*` are regenerated on every run by `tools/py2lean_comp.py` from `/repo/cellpylib/rule_tables.py`:
`other_states = [x for x in range(0, k) if x != quiescent_state]` (both functions), the test under which the quiescent
state is rejected, `n = 2*r + 1`, and numerator / denominator of the reported lambda — `(k**n - quiescent_state_count) /
k**n` in `random_rule_table`, `(k**n - list(rule_table.values()).count(quiescent_state)) / k**n` in `actual_lambda()`.
The theorems of `Cpl/Properties/C17.lean` are about the model's `otherStates`, `quiescentCount`, `lamGt/lamLt/lamEq`
(exact rationals `(k^n − count) / k^n`) in `Cpl/Model/RuleTables.lean`; the theorems below prove the translated
expressions equal to those for all `k`, `r`, `q`, counts and tables.

Outside (modelled; validated through the correspondence on every run): the loops, the dict, `np.base_repr` / `zfill`,
string reversal, the random draws (oracles), the float division and comparison of lambda.
-/

namespace Cpl.C17tie
open Cpl

theorem otherStates_tie (k q : Nat) :
    List.map (fun v_x : Int => v_x) (List.filter (fun v_x : Int => decide (v_x ≠ (q : Int))) (pyRange (0 : Int) (k : Int) 1))
      = (otherStates k q).map Int.ofNat := by
  rw [C10tie.pyRange_unit]
  simp only [List.map_id', otherStates, List.filter_map, Function.comp_def]
  congr 1
  apply List.filter_congr
  intro x _
  by_cases h : x = q
  · simp [h]
  · have : ¬ ((x : Int) = (q : Int)) := by omega
    simp [h, this]

/-- **Source tie (C17), other states.** In both functions `other_states` is the model's `otherStates k q`. -/
theorem otherStates_source_tie (k q : Nat) :
    Gen.RuleTables.rrtOtherStates (k : Int) (q : Int) = (otherStates k q).map Int.ofNat
    ∧ Gen.RuleTables.walkOtherStates (k : Int) (q : Int) = (otherStates k q).map Int.ofNat :=
  ⟨otherStates_tie k q, otherStates_tie k q⟩

/-- **Source tie (C17), rejection.** For `k ≥ 1` (the claim has `k ≥ 2`) `random_rule_table` raises for the quiescent
    state exactly when the model does: `q > k − 1`. (For `k = 0` Python rejects every `q`; the model's natural-number
    `k − 1` would accept `q = 0` — outside the claim, and excluded here by the hypothesis.) -/
theorem rrtRejects_source_tie (k q : Nat) (hk : 1 ≤ k) :
    Gen.RuleTables.rrtRejects (k : Int) (q : Int) = decide (q > k - 1) := by
  unfold Gen.RuleTables.rrtRejects
  by_cases h : q > k - 1
  · have : ¬ ((q : Int) ≤ (k : Int) - 1) := by omega
    simp [h, this]
  · have : (q : Int) ≤ (k : Int) - 1 := by omega
    simp [h, this]

/-- **Source tie (C17), reported lambda of `random_rule_table`.** Numerator and denominator are `k^n − count` and `k^n`
    with `n = 2r + 1` (the model's exact rational), for every count that does not exceed the number of entries. -/
theorem rrtLambda_source_tie (k r cnt : Nat) (h : cnt ≤ k ^ (2 * r + 1)) :
    Gen.RuleTables.rrtLambda (k : Int) (r : Int) (cnt : Int)
      = (((k ^ (2 * r + 1) - cnt : Nat) : Int), ((k ^ (2 * r + 1) : Nat) : Int)) := by
  unfold Gen.RuleTables.rrtLambda
  have hn : ((2 : Int) * (r : Int) + 1).toNat = 2 * r + 1 := by omega
  simp only [hn]
  rw [Int.ofNat_sub h]
  simp

theorem count_values (t : RTable) (q : Nat) :
    List.count (q : Int) (t.map fun e => ((e.2 : Nat) : Int)) = quiescentCount t q := by
  unfold quiescentCount
  induction t with
  | nil => rfl
  | cons e es ih =>
    simp only [List.map_cons, List.count_cons, ih, List.filter_cons]
    by_cases h : e.2 = q
    · simp [h]
    · have : ¬ ((e.2 : Int) = (q : Int)) := by omega
      simp [h, this]

/-- **Source tie (C17), `actual_lambda()` of `table_walk_through`.** Over the values of any table, numerator and
    denominator are `k^n − quiescentCount` and `k^n` (what `lamGt` / `lamLt` / `lamEq` compare with the target), whenever
    the table has at most `k^n` quiescent entries. -/
theorem walkLambda_source_tie (t : RTable) (k r q : Nat) (h : quiescentCount t q ≤ k ^ (2 * r + 1)) :
    Gen.RuleTables.walkLambda (t.map fun e => ((e.2 : Nat) : Int)) (k : Int) (r : Int) (q : Int)
      = (((k ^ (2 * r + 1) - quiescentCount t q : Nat) : Int), ((k ^ (2 * r + 1) : Nat) : Int)) := by
  unfold Gen.RuleTables.walkLambda
  have hn : ((2 : Int) * (r : Int) + 1).toNat = 2 * r + 1 := by omega
  simp only [hn, count_values]
  rw [Int.ofNat_sub h]
  simp

theorem lookup_map_inj {α β γ δ : Type} [BEq α] [LawfulBEq α] [BEq γ] [LawfulBEq γ] (f : α → γ) (g : β → δ)
    (hf : ∀ a b, f a = f b → a = b) (k : α) (t : List (α × β)) :
    List.lookup (f k) (t.map fun e => (f e.1, g e.2)) = (List.lookup k t).map g := by
  induction t with
  | nil => rfl
  | cons e es ih =>
    obtain ⟨a, v⟩ := e
    simp only [List.map_cons, List.lookup_cons]
    by_cases h : k = a
    · subst h; simp
    · have h2 : ¬ (f k = f a) := fun hh => h (hf _ _ hh)
      have b1 : (k == a) = false := by simpa using h
      have b2 : (f k == f a) = false := by simpa using h2
      simp only [b1, b2]
      exact ih

theorem map_ofNat_inj (a b : List Nat) (h : a.map Int.ofNat = b.map Int.ofNat) : a = b := by
  induction a generalizing b with
  | nil => cases b <;> simp_all
  | cons x xs ih =>
    cases b with
    | nil => simp at h
    | cons y ys =>
      simp only [List.map_cons, List.cons.injEq] at h
      have hx : x = y := Int.ofNat.inj h.1
      rw [hx, ih ys h.2]

/-- **Source tie (C17), `table_rule`.** For every table and every neighbourhood the translated function returns the table's
    entry when the neighbourhood's digit string is a key and raises otherwise — the model's `tableRule`. (Keys are digit
    lists: `''.join(str(x) …)` of states below 10.) -/
theorem tableRule_source_tie (nb : List Nat) (t : RTable) :
    Gen.RuleTables.tableRule (nb.map Int.ofNat) (t.map fun e => (e.1.map Int.ofNat, (e.2 : Int)))
      = ((tableRule nb t).toOption).map Int.ofNat := by
  unfold Gen.RuleTables.tableRule tableRule RTable.get
  have hl := lookup_map_inj (fun l : List Nat => l.map Int.ofNat) (fun v : Nat => (v : Int)) map_ofNat_inj nb t
  simp only [hl]
  cases h : List.lookup nb t <;> simp [Except.toOption]

/-- Non-vacuity (a test): `k = 3`, `r = 1`, `q = 1`. -/
example : Gen.RuleTables.rrtOtherStates 3 1 = [0, 2] ∧ Gen.RuleTables.rrtLambda 3 1 9 = (18, 27)
    ∧ Gen.RuleTables.rrtRejects 3 3 = true ∧ Gen.RuleTables.rrtRejects 3 2 = false := by decide

end Cpl.C17tie
