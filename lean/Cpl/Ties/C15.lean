import Cpl.Ties.Common
import Cpl.Ties.Lemmas

/-!
# C15 — translated sources of `SDSRLoop._is_in_tube` and `CTRBLRule.__call__` equal the model

Regenerated from `/repo/cellpylib/{sdsr_loop,ctrbl_rule}.py` on every run and compared with the hand model by
kernel evaluation: `_is_in_tube` on all 9^4 neighbour combinations, `CTRBLRule.__call__` with Langton's
generated table on 72 keys over states 0..2 (present and absent combinations, key order
centre-top-right-bottom-left). The default-rule bodies of `SDSRLoop.__call__` / `Evoloop.__call__` are translated
too (`Cpl.Gen.sdsrCall`, `evoloopCall`) but their 9^5-key equality is too slow for the kernel (≈25 ms per key);
they are tied structurally below (`sdsr_source_tie_all`, `evoloop_source_tie_all`), for every table and every key.

The second half of the file holds the structural ties (no enumeration of inputs): `ctrbl_source_tie_all`,
`intube_source_tie_all`, `sdsr_source_tie_all`, `evoloop_source_tie_all` and their corollaries for the library's own
tables. The `__call__` bodies are if-cascades over the centre state and over neighbour tests; the proofs decide the
centre state (0..8 or anything else), evaluate both cascades with `simp`, abstract the neighbour tests
(`inTube t r b l`, `mem i [t, r, b, l]`, the `any`) to Booleans and compare the remaining truth tables.
-/

namespace Cpl.C15
open Cpl Cpl.Gen Cpl.Ties

def chkTube : Bool :=
  digits9.all fun t => digits9.all fun r => digits9.all fun b => digits9.all fun l =>
    Gen.sdsrInTube {} (.int t) (.int r) (.int b) (.int l) == .bool (inTube t r b l)

/-- **Translated `_is_in_tube` = model on all 9^4 combinations.** -/
theorem intube_source_tie : chkTube = true := by decide +kernel

def chkCtrbl : Bool :=
  digits2.all fun c => digits3.all fun t => digits2.all fun r => digits3.all fun b => digits2.all fun l =>
    Gen.ctrblCall (envOfTable langtonTable (c, t, r, b, l)) .none .none == ofExcept (ctrblCall langtonTable (c, t, r, b, l))

/-- **Translated `CTRBLRule.__call__` = model** (table entry or ValueError) on 72 keys over states 0..2 with
    Langton's table. -/
theorem ctrbl_source_tie : chkCtrbl = true := by decide +kernel

/-! ## Structural ties: all tables, all integer keys -/

set_option linter.unusedSimpArgs false

/-- **Translated `CTRBLRule.__call__` = model** (table entry or ValueError) for every table and every key. -/
theorem ctrbl_source_tie_all (tbl : Table) (k : Key5) (c t : V) :
    Gen.ctrblCall (envOfTable tbl k) c t = ofExcept (Cpl.ctrblCall tbl k) := by
  obtain ⟨kc, kt, kr, kb, kl⟩ := k
  unfold Gen.ctrblCall Cpl.ctrblCall
  simp only [Id.run, pure, V.toInt_int, envOfTable_nb11, envOfTable_nb01, envOfTable_nb12, envOfTable_nb21,
    envOfTable_nb10, envOfTable_tableMem, envOfTable_tableGet]
  have key : ∀ o : Option Int, (if (!o.isSome) = true then V.err else ofOpt o)
      = Ties.ofExcept (match o with | some v => .ok v | none => .error Py.Err.ValueError) := by
    intro o; cases o <;> rfl
  exact key _

/-- **Translated `_is_in_tube` = model** for all integer sites (and any environment): the counting loop is the
    length of a filter. -/
theorem intube_source_tie_all (env : Env) (t r b l : Int) :
    Gen.sdsrInTube env (.int t) (.int r) (.int b) (.int l) = .bool (inTube t r b l) := by
  unfold Gen.sdsrInTube inTube
  simp only [Id.run, pure]
  rw [forIn_count _ (fun v => V.mem v [V.int 1, V.int 2, V.int 4, V.int 6, V.int 7])]
  rw [foldl_count_eq_filter]
  rw [show [V.int t, V.int r, V.int b, V.int l] = [t, r, b, l].map V.int from rfl,
    List.filter_map, List.length_map]
  have : ((fun v => V.mem v [V.int 1, V.int 2, V.int 4, V.int 6, V.int 7]) ∘ V.int)
      = fun site => mem site [1, 2, 4, 6, 7] := by
    funext x
    exact V.mem_ints x [1, 2, 4, 6, 7]
  rw [this]
  simp only [bind, V.ge_int]
  congr 1
  apply decide_eq_decide.mpr
  omega

/-- Evaluate a translated if-cascade and the model's once the centre state is decided (`h` : the table lookup).
    `↓reduceIte` picks a branch as soon as its condition is decided, so the join points of the `do` block are
    expanded along live paths only. `mem i [t, r, b, l]` and `inTube t r b l` stay atomic. -/
macro "tie_eval" h:ident : tactic => `(tactic|
  simp only [Id.run, pure, V.toInt_int, envOfTable_nb11, envOfTable_nb01, envOfTable_nb12, envOfTable_nb21,
    envOfTable_nb10, envOfTable_tableMem, envOfTable_tableGet, $h:ident, intube_source_tie_all,
    V.eq_int, V.memOf_quad, V.any_memOf_quad_2to7, V.mem_cons_int, V.mem_nil, mem_235, mem_467, mem_1to7,
    V.truthy_bool, V.isNone_none, V.isNone_int, Int.reduceEq, decide_true, decide_false,
    Bool.true_and, Bool.false_and, Bool.or_false, Bool.false_or, Bool.true_or, Bool.or_true, Bool.and_true,
    Bool.and_false, Option.isSome_none, Option.isSome_some, Bool.not_false, Bool.not_true, ↓reduceIte,
    Bool.false_eq_true, Bool.and_eq_true, Bool.or_eq_true, true_and, false_and, and_true, and_false, true_or,
    false_or, or_false, or_true, Option.isNone_none, Option.isNone_some, not_true_eq_false, not_false_eq_true, *])

/-- Case on a Boolean atom if the goal mentions it (otherwise drop it). -/
macro "bcase" v:ident : tactic => `(tactic| first | clear $v | cases $v:ident)

/-- Abstract the neighbour tests to Booleans and compare the remaining truth tables. -/
macro "tie_table" t:ident r:ident b:ident l:ident : tactic => `(tactic|
  (generalize inTube $t $r $b $l = tube
   generalize ([2, 3, 4, 5, 6, 7].any fun i => mem i [$t, $r, $b, $l]) = anyb
   generalize mem 0 [$t, $r, $b, $l] = m0
   generalize mem 1 [$t, $r, $b, $l] = m1
   generalize mem 2 [$t, $r, $b, $l] = m2
   generalize mem 3 [$t, $r, $b, $l] = m3
   generalize mem 4 [$t, $r, $b, $l] = m4
   generalize mem 6 [$t, $r, $b, $l] = m6
   generalize mem 7 [$t, $r, $b, $l] = m7
   generalize mem 8 [$t, $r, $b, $l] = m8
   bcase tube <;> bcase anyb <;> bcase m0 <;> bcase m1 <;> bcase m2 <;> bcase m3 <;> bcase m4 <;> bcase m6 <;>
     bcase m7 <;> bcase m8 <;> rfl))

/-- Decide the centre state (0..8, or anything else) and run `tie_eval` / `tie_table` in each case. -/
macro "tie_cascade" h:ident c:ident t:ident r:ident b:ident l:ident : tactic => `(tactic|
  (by_cases h0 : $c = 0
   · subst h0; tie_eval $h; tie_table $t $r $b $l
   by_cases h1 : $c = 1
   · subst h1; tie_eval $h; tie_table $t $r $b $l
   by_cases h2 : $c = 2
   · subst h2; tie_eval $h; tie_table $t $r $b $l
   by_cases h3 : $c = 3
   · subst h3; tie_eval $h; tie_table $t $r $b $l
   by_cases h4 : $c = 4
   · subst h4; tie_eval $h; tie_table $t $r $b $l
   by_cases h5 : $c = 5
   · subst h5; tie_eval $h; tie_table $t $r $b $l
   by_cases h6 : $c = 6
   · subst h6; tie_eval $h; tie_table $t $r $b $l
   by_cases h7 : $c = 7
   · subst h7; tie_eval $h; tie_table $t $r $b $l
   by_cases h8 : $c = 8
   · subst h8; tie_eval $h; tie_table $t $r $b $l
   tie_eval $h; tie_table $t $r $b $l))

/-- `SDSRLoop.__call__` on a key absent from the table: the translated default rules are the model's. -/
theorem sdsr_absent (tbl : Table) (kc kt kr kb kl : Int) (c t : V) (h : tbl.lookup (kc, kt, kr, kb, kl) = none) :
    Gen.sdsrCall (envOfTable tbl (kc, kt, kr, kb, kl)) c t = ofOpt (sdsrDefault (kc, kt, kr, kb, kl)) := by
  unfold Gen.sdsrCall sdsrDefault cleanup eightRules
  tie_cascade h kc kt kr kb kl

/-- `SDSRLoop.__call__` / `Evoloop.__call__` on a key present in the table: the entry. -/
theorem sdsr_present (tbl : Table) (kc kt kr kb kl v : Int) (c t : V)
    (h : tbl.lookup (kc, kt, kr, kb, kl) = some v) :
    Gen.sdsrCall (envOfTable tbl (kc, kt, kr, kb, kl)) c t = V.int v := by
  unfold Gen.sdsrCall
  tie_eval h
  rfl

/-- **Translated `SDSRLoop.__call__` = model** (table entry, else the default rules) for every table and key. -/
theorem sdsr_source_tie_all (tbl : Table) (k : Key5) (c t : V) :
    Gen.sdsrCall (envOfTable tbl k) c t
      = ofOpt (match tbl.lookup k with | some v => some v | none => sdsrDefault k) := by
  obtain ⟨kc, kt, kr, kb, kl⟩ := k
  cases h : tbl.lookup (kc, kt, kr, kb, kl) with
  | none => exact sdsr_absent tbl kc kt kr kb kl c t h
  | some v => exact sdsr_present tbl kc kt kr kb kl v c t h

/-- … in particular with `SDSRLoop()`'s own table: the model `sdsrLoop`. -/
theorem sdsr_source_tie_loop (k : Key5) (c t : V) :
    Gen.sdsrCall (envOfTable sdsrTable k) c t = ofOpt (sdsrLoop k) :=
  sdsr_source_tie_all sdsrTable k c t

theorem evoloop_absent (tbl : Table) (kc kt kr kb kl : Int) (c t : V)
    (h : tbl.lookup (kc, kt, kr, kb, kl) = none) :
    Gen.evoloopCall (envOfTable tbl (kc, kt, kr, kb, kl)) c t = ofOpt (evoloopDefault (kc, kt, kr, kb, kl)) := by
  unfold Gen.evoloopCall evoloopDefault cleanup eightRules
  tie_cascade h kc kt kr kb kl

theorem evoloop_present (tbl : Table) (kc kt kr kb kl v : Int) (c t : V)
    (h : tbl.lookup (kc, kt, kr, kb, kl) = some v) :
    Gen.evoloopCall (envOfTable tbl (kc, kt, kr, kb, kl)) c t = V.int v := by
  unfold Gen.evoloopCall
  tie_eval h
  rfl

/-- **Translated `Evoloop.__call__` = model** (table entry, else the default rules) for every table and key. -/
theorem evoloop_source_tie_all (tbl : Table) (k : Key5) (c t : V) :
    Gen.evoloopCall (envOfTable tbl k) c t
      = ofOpt (match tbl.lookup k with | some v => some v | none => evoloopDefault k) := by
  obtain ⟨kc, kt, kr, kb, kl⟩ := k
  cases h : tbl.lookup (kc, kt, kr, kb, kl) with
  | none => exact evoloop_absent tbl kc kt kr kb kl c t h
  | some v => exact evoloop_present tbl kc kt kr kb kl v c t h

/-- … in particular with `Evoloop()`'s own table: the model `evoloop`. -/
theorem evoloop_source_tie_loop (k : Key5) (c t : V) :
    Gen.evoloopCall (envOfTable evoloopTable k) c t = ofOpt (evoloop k) :=
  evoloop_source_tie_all evoloopTable k c t

end Cpl.C15
