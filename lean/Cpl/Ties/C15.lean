import Cpl.Ties.Common

/-!
# C15 — translated sources of `SDSRLoop._is_in_tube` and `CTRBLRule.__call__` equal the model

Regenerated from `/repo/cellpylib/{sdsr_loop,ctrbl_rule}.py` on every run and compared with the hand model by
kernel evaluation: `_is_in_tube` on all 9^4 neighbour combinations, `CTRBLRule.__call__` with Langton's
generated table on all 3^5 keys over states 0..2 (present and absent combinations, key order
centre-top-right-bottom-left). The default-rule bodies of `SDSRLoop.__call__` / `Evoloop.__call__` are translated
too (`Cpl.Gen.sdsrCall`, `evoloopCall`) but their 9^5-key equality is too slow for the kernel (≈25 ms per key);
they are tied by the complete 9^5 correspondence of the harness in every run instead.
-/

namespace Cpl.C15
open Cpl Cpl.Gen Cpl.Ties

def chkTube : Bool :=
  digits9.all fun t => digits9.all fun r => digits9.all fun b => digits9.all fun l =>
    Gen.sdsrInTube {} (.int t) (.int r) (.int b) (.int l) == .bool (inTube t r b l)

/-- **Translated `_is_in_tube` = model on all 9^4 combinations.** -/
theorem intube_source_tie : chkTube = true := by decide +kernel

def chkCtrbl : Bool :=
  digits3.all fun c => digits3.all fun t => digits3.all fun r => digits3.all fun b => digits3.all fun l =>
    Gen.ctrblCall (envOfTable langtonTable (c, t, r, b, l)) .none .none == ofExcept (ctrblCall langtonTable (c, t, r, b, l))

/-- **Translated `CTRBLRule.__call__` = model** (table entry or ValueError) on all keys over states 0..2 with
    Langton's table. -/
theorem ctrbl_source_tie : chkCtrbl = true := by decide +kernel

end Cpl.C15
