import Cpl.Gen.Averages
import Cpl.Ties.C10Lemmas

/-!
# C16 — `average_cell_entropy` and `average_mutual_information` as written equal the model's, in every arithmetic

`Cpl.Gen.Averages.*` are regenerated on every run by `tools/py2lean_comp.py` from `/repo/cellpylib/entropy.py`: the number of
columns, the acceptance test `0 < temporal_distance < shape[0]`, the loop over the columns with each cell's series of states
`[str(x) for x in a[:, i]]`, the pairing `series[:-d]` with `series[d:]`, and `np.mean`. The theorems hold **for every
`N : Num F`** and every automaton given as the list of its rows.

Outside (modelled; validated through the correspondence): an `ndarray` as the list of its rows (`a.shape`, `a[:, i]`), `str` of
a state as the state itself (injective), `np.mean` = `N.mean` (sum / count), `mutual_information` / `shannon_entropy` = the
model's functions (their own ties: `Ties/C16Full.lean`).
-/

namespace Cpl.C16tie
open Cpl

theorem foldl_append_map {α β : Type} (f : α → β) (l : List α) (init : List β) :
    l.foldl (fun acc i => acc ++ [f i]) init = init ++ l.map f := by
  induction l generalizing init with
  | nil => simp
  | cons a l ih => simp [ih]

/-- **Source tie (C16), `average_cell_entropy`.** -/
theorem averageCellEntropy_source_tie {F : Type} (N : Num F) (ca : List (List Int)) :
    Gen.Averages.averageCellEntropy N ca = some (Cpl.averageCellEntropy N ca) := by
  unfold Gen.Averages.averageCellEntropy Cpl.averageCellEntropy
  simp only [C10tie.pyRange_unit, Option.pure_def]
  rw [foldl_append_map (fun v_i : Int => shannon N (column ca v_i.toNat))]
  simp [List.map_map, Function.comp_def]

theorem sliceTo_neg {α : Type} (s : List α) (d : Int) (hd : 0 < d) :
    Py.sliceTo s (-d) = s.take (s.length - d.toNat) := by
  unfold Py.sliceTo
  have h1 : -d < 0 := by omega
  simp only [h1, if_true]
  congr 1
  omega

theorem sliceFrom_pos {α : Type} (s : List α) (d : Int) (hd : 0 < d) :
    Py.sliceFrom s d = s.drop d.toNat := by
  unfold Py.sliceFrom
  have h1 : ¬ d < 0 := by omega
  simp only [h1, if_false]
  by_cases h : d ≤ (s.length : Int)
  · congr 1; omega
  · have e1 : (min d (s.length : Int)).toNat = s.length := by omega
    rw [e1, List.drop_length, List.drop_eq_nil_of_le (by omega)]

/-- **Source tie (C16), `average_mutual_information`.** For every arithmetic, automaton and temporal distance (any integer)
    the translated function raises exactly when the model rejects the distance, and otherwise returns the model's value. -/
theorem averageMutualInformation_source_tie {F : Type} (N : Num F) (ca : List (List Int)) (d : Int) :
    Gen.Averages.averageMutualInformation N ca d = (Cpl.averageMutualInformation N ca d).toOption := by
  unfold Gen.Averages.averageMutualInformation Cpl.averageMutualInformation
  by_cases h : 0 < d ∧ d < (ca.length : Int)
  · simp only [C10tie.pyRange_unit]
    rw [foldl_append_map (fun v_i : Int => mutualInformation N (Py.sliceTo (column ca v_i.toNat) (-d)) (Py.sliceFrom (column ca v_i.toNat) d))]
    simp [h, List.map_map, Function.comp_def, sliceTo_neg _ d h.1, sliceFrom_pos _ d h.1, Except.toOption]
  · have hc : (!(decide ((0 : Int) < d) && decide (d < ((ca.length : Nat) : Int)))) = true := by
      simp only [Bool.not_eq_true', Bool.and_eq_false_iff, decide_eq_false_iff_not]
      by_cases h0 : 0 < d
      · right; intro h1; exact h ⟨h0, h1⟩
      · left; exact h0
    simp [hc, h, Except.toOption]

end Cpl.C16tie
