import Cpl.Gen.Memo
import Cpl.Model.Evolve1D

/-!
# C03 / C09 — `_get_memoized` as written equals the model's `getMemoized`, for every rule, table and neighbourhood

`Cpl.Gen.Memo.getMemoized` is regenerated on every run by `tools/py2lean_comp.py` from
`/repo/cellpylib/ca_functions.py: _get_memoized`: the key `n.tobytes()`, the membership test, the hit branch returning the
stored value without calling the rule, the miss branch calling the rule once and storing its result. The theorems of
`Cpl/Properties/C03.lean` (memoized rows = plain rows for pure rules) and `C09.lean` (the rule is invoked exactly once per
distinct neighbourhood content) are about the model's `getMemoized` / `memoLoop` (`Cpl/Model/Evolve1D.lean`).

Outside (modelled; validated through the correspondence): `n.tobytes()` as the contents of the neighbourhood, the dict as its
item list, how the evolvers call `_get_memoized` (the list comprehension over `enumerate(neighbourhoods)`, `memoLoop`).
-/

namespace Cpl.C03tie
open Cpl

theorem lookup_append_absent {κ ν : Type} [BEq κ] [LawfulBEq κ] (d : List (κ × ν)) (k k' : κ) (v : ν)
    (h : d.lookup k = none) : (d ++ [(k, v)]).lookup k' = ((k, v) :: d).lookup k' := by
  induction d with
  | nil => rfl
  | cons e es ih =>
    obtain ⟨a, w⟩ := e
    simp only [List.lookup_cons] at h
    by_cases ha : k == a
    · simp [ha] at h
    · simp only [ha] at h
      have ih' := ih h
      simp only [List.cons_append, List.lookup_cons] at ih' ⊢
      by_cases hk : k' == a
      · have hne : (k' == k) = false := by
          have h1 : k' = a := by simpa using hk
          have h2 : ¬ (k = a) := by simpa using ha
          have : ¬ (k' = k) := by rintro rfl; exact h2 h1
          simpa using this
        simp [hk, hne]
      · simp only [hk]
        exact ih'

theorem any_false_of_lookup_none {κ ν : Type} [BEq κ] [LawfulBEq κ] (d : List (κ × ν)) (k : κ)
    (h : d.lookup k = none) : d.any (fun e => e.1 == k) = false := by
  induction d with
  | nil => rfl
  | cons e es ih =>
    obtain ⟨a, w⟩ := e
    simp only [List.lookup_cons] at h
    by_cases ha : k == a
    · simp [ha] at h
    · simp only [ha] at h
      have h2 : (a == k) = false := by
        have : ¬ (k = a) := by simpa using ha
        have : ¬ (a = k) := fun hh => this hh.symm
        simpa using this
      simp [List.any_cons, h2, ih h]

/-- **Source tie (C03 / C09).** For every rule (threading any state), neighbourhood, cell, step and table, the translated
    `_get_memoized` returns the model's value and rule state, and a table that answers every lookup like the model's: on a hit
    the rule is not called and the table is unchanged; on a miss the rule is called once and its result stored under the
    neighbourhood's contents. -/
theorem getMemoized_source_tie {σ : Type} (rule : Rule1 σ Int) (n : List Int) (c t : Nat) (tbl : MemoTable Int) (s : σ) :
    let g := Gen.Memo.getMemoized (fun s n c t => rule s n c.toNat t.toNat) n (c : Int) (t : Int) tbl s
    let m := Cpl.getMemoized rule n c t tbl s
    g.1 = m.1 ∧ g.2.2 = m.2.2 ∧ ∀ k, g.2.1.lookup k = m.2.1.lookup k := by
  unfold Gen.Memo.getMemoized Cpl.getMemoized
  cases h : List.lookup n tbl with
  | some v => simp [h]
  | none =>
    simp only [h, Option.isSome_none, Bool.false_eq_true, if_false, Int.toNat_natCast]
    refine ⟨trivial, trivial, fun k => ?_⟩
    simp only [dictSet, any_false_of_lookup_none tbl n h, Bool.false_eq_true, if_false]
    exact lookup_append_absent tbl n k _ h

end Cpl.C03tie
