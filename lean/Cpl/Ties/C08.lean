import Cpl.Gen.Rules
import Cpl.Ties.Lemmas

/-!
# C08 — the translated source of `totalistic_rule` equals the model, for all inputs

`Cpl.Gen.totalistic` is regenerated from `/repo/cellpylib/ca_functions.py` on every run (`tools/py2lean.py`); the
theorems of `Cpl/Properties/C08.lean` are about the hand model `totalisticRule` (`Cpl/Model/Rules.lean`). Outside the
translated subset (primitives of `Cpl/PyStr.lean`, validated through the correspondence): `np.base_repr` (digit
values, bases 2..36, `ValueError` otherwise), `str.zfill`, string indexing and `int(ch, k)` on a digit.
-/

namespace Cpl.C08
open Cpl Cpl.Gen Cpl.Ties

/-- How a neighbourhood is presented: its size (masked cells included) and its sum (masked cells excluded). -/
def envTot (size : Nat) (sum : Int) : Env := { nbSize := (size : Int), nbSum := sum }

/-- **Source tie (C08).** For every neighbourhood size and sum, every number of colours `k` and every rule number:
    the translated `totalistic_rule` is the model's `totalisticRule` — the same digit, `ValueError` for a base
    outside 2..36 or a rule number with too many digits, `IndexError` for a sum outside the rule string. -/
theorem totalistic_source_tie (size : Nat) (sum : Int) (k rule : Nat) :
    Gen.totalistic (envTot size sum) (V.int (k : Int)) (V.int (rule : Int))
      = (match totalisticRule size sum k rule with
         | .ok d => V.int (d : Int)
         | .error _ => V.err) := by
  unfold Gen.totalistic totalisticRule
  simp only [Id.run, pure, envTot, V.baseRepr, V.toInt_int, V.zfill, V.digitAt, V.add_int, V.mul_int, V.sub_int, V.gt_int]
  by_cases hk : k < 2 ∨ 36 < k
  · have : ((k : Int) < 2 ∨ 36 < (k : Int)) := by omega
    simp [hk, this]
  · have hk' : ¬ ((k : Int) < 2 ∨ 36 < (k : Int)) := by omega
    have hk1 : 1 ≤ k := by omega
    have e2 : ((size : Int) * ((k : Int) - 1)) = ((size * (k - 1) : Nat) : Int) := by
      rw [Int.natCast_mul, Int.natCast_sub hk1]; rfl
    simp only [hk, hk', if_false, Option.isNone_some, Bool.false_eq_true, Option.getD_some, Int.toNat_natCast, e2]
    generalize size * (k - 1) = m
    have e1 : ((m : Int) + 1).toNat = m + 1 := by omega
    simp only [e1]
    generalize Py.padLeft (m + 1) 0 (Py.baseDigits k rule) = L
    by_cases hl : L.length > m + 1
    · have hl' : ((L.length : Nat) : Int) > (m : Int) + 1 := by omega
      simp only [hl, hl', decide_true, if_true]
    · have hl' : ¬ (((L.length : Nat) : Int) > (m : Int) + 1) := by omega
      simp only [hl, hl', decide_false, Bool.false_eq_true, if_false]
      cases Py.getIdx L ((m : Int) - sum) <;> rfl

end Cpl.C08
