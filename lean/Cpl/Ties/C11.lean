import Cpl.Ties.Common
import Cpl.Ties.Lemmas

/-!
# C11 — the translated source of `game_of_life_rule` equals the model on its complete domain

`Cpl.Gen.gol` is regenerated from `/repo/cellpylib/ca_functions2d.py` on every run; the theorems of
`Cpl/Properties/C11.lean` are about the hand model `golRule`. This kernel-evaluated equality over all 512
binary neighbourhoods closes the gap: a source edit that changes the rule on binary input breaks it, a
semantics-preserving rewrite (inside the translator's subset) keeps it.
-/

namespace Cpl.C11
open Cpl Cpl.Gen Cpl.Ties

/-- **Translated `game_of_life_rule` = model, for every binary 3×3 neighbourhood** (whatever `c`, `t`). -/
theorem gol_source_tie :
    ∀ l ∈ all512, Gen.gol (envOfGrid (gridOf l)) .none .none = ofOpt (golRule (gridOf l)) := by
  decide +kernel

/-- **Translated `game_of_life_rule` = model, for every integer neighbourhood** (any shape, any cell values,
    whatever `c`, `t`) — structural: both sides are the same if-cascade over the centre cell and the total. -/
theorem gol_source_tie_all (g : List (List Int)) (c t : V) :
    Gen.gol (envOfGrid g) c t = ofOpt (golRule g) := by
  unfold Gen.gol golRule
  simp only [Id.run, pure, envOfGrid, V.sub_int, V.eq_int, V.lt_int, V.gt_int, Bool.or_eq_true,
    decide_eq_true_eq]
  generalize (g.getD 1 []).getD 1 0 = ctr
  generalize g.flatten.foldl (· + ·) 0 = tot
  by_cases h1 : ctr = 1 <;> simp only [h1, if_true, if_false]
  · by_cases h2 : tot - 1 < 2 <;> simp only [h2, if_true, if_false]
    · rfl
    · by_cases h3 : tot - 1 = 2 ∨ tot - 1 = 3 <;> simp only [h3, if_true, if_false]
      · rfl
      · by_cases h4 : tot - 1 > 3 <;> simp only [h4, if_true, if_false] <;> rfl
  · by_cases h2 : tot = 3 <;> simp only [h2, if_true, if_false] <;> rfl

end Cpl.C11
