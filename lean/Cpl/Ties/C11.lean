import Cpl.Ties.Common

/-!
# C11 — the translated source of `game_of_life_rule` equals the model on its complete domain

`Cpl.Gen.gol` is regenerated from `/repo/cellpylib/ca_functions2d.py` on every run; the theorems of
`Cpl/Properties/C11.lean` are about the hand model `golRule`. This kernel-evaluated equality over all 512
binary neighbourhoods closes the gap: a source edit that changes the rule on binary input breaks it, a
semantics-preserving rewrite (inside the translator's subset) keeps it.
-/

namespace Cpl.C11
open Cpl Cpl.Gen Cpl.Ties

/-- **Translated `game_of_life_rule` = model, for every binary 3×3 neighbourhood** (whatever `c`, `t`). -/
theorem gol_source_tie :
    ∀ l ∈ all512, Gen.gol (envOfGrid (gridOf l)) .none .none = ofOpt (golRule (gridOf l)) := by
  decide +kernel

end Cpl.C11
