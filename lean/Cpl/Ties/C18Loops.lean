import Cpl.Gen.BienLoops
import Cpl.Model.Measures

/-!
# C18 — the accumulation loops of `bien`, `tbien`, `ktbien` as written equal the model's formulas, in every arithmetic

`Cpl.Gen.BienLoops.*` are regenerated on every run by `tools/py2lean_comp.py` from `/repo/cellpylib/bien.py`: the three
functions translated statement by statement, with the floating-point operations written over the abstract arithmetic record
`Num F` the model itself is written over. The theorems below hold **for every `N : Num F`** — so for `floatNum` (what the
driver evaluates and the correspondence compares with the running code) and for `realNum` (what `Cpl/Properties/C18.lean`
proves the closed forms, the range [0, 1] and the invariances about) alike: the loop structure, the number of derivative
steps, which derivative is iterated, the weights `2^k` / `log2(k + 2)`, the normalisers `2^(n−1) − 1` / `Σ log2(k + 2)`
and the order of the floating-point operations are taken from the source.

Outside (modelled; validated through the correspondence): that Python's `float` `+ * /` and `math.log` are `floatNum`'s
(IEEE-754, compared within 1e-9), `shannon_entropy` (its countable part is tied in `Ties/C16.lean`), the two derivative
functions (tied in `Ties/C18.lean` for binary strings), strings as digit lists.
-/

namespace Cpl.C18tie
open Cpl

variable {F : Type} (N : Num F)

theorem foldl_bienLoop3 (deriv : List Int → List Int) (weight : Nat → F) (steps k : Nat) (s : List Int) (tot totw : F) :
    ((List.range' k steps).foldl (fun (st : List Int × F × F) (i : Nat) =>
        (deriv st.1, N.add st.2.1 (N.mul (shannon N st.1) (weight i)), N.add st.2.2 (weight i))) (s, tot, totw)).2
      = bienLoop N deriv weight steps k s tot totw := by
  induction steps generalizing k s tot totw with
  | zero => rfl
  | succ n ih =>
    simp only [List.range'_succ, List.foldl_cons, bienLoop]
    exact ih (k + 1) (deriv s) _ _

theorem foldl_bienLoop2 (deriv : List Int → List Int) (weight : Nat → F) (steps k : Nat) (s : List Int) (tot totw : F) :
    ((List.range' k steps).foldl (fun (st : List Int × F) (i : Nat) =>
        (deriv st.1, N.add st.2 (N.mul (shannon N st.1) (weight i)))) (s, tot)).2
      = (bienLoop N deriv weight steps k s tot totw).1 := by
  induction steps generalizing k s tot totw with
  | zero => rfl
  | succ n ih =>
    simp only [List.range'_succ, List.foldl_cons, bienLoop]
    exact ih (k + 1) (deriv s) _ _

theorem two_pow_toNat (k : Nat) : (((2 : Int) ^ ((k : Int)).toNat)).toNat = 2 ^ k := by
  rw [Int.toNat_natCast]
  have : ((2 : Int) ^ k) = ((2 ^ k : Nat) : Int) := by simp
  rw [this, Int.toNat_natCast]

/-- **Source tie (C18), `bien`.** For every arithmetic and every string of length ≥ 1 (for the empty string Python's
    `2**(n - 1)` is `2**-1 = 0.5`, outside the integer reading of `**`; the claim has length ≥ 2) the translated function is
    the model's `bien`. -/
theorem bien_source_tie (s : List Int) (h : 1 ≤ s.length) : Gen.BienLoops.bien N s = Cpl.bien N s := by
  have _ := h
  unfold Gen.BienLoops.bien Cpl.bien
  have hn : (((s.length : Nat) : Int) - 1).toNat = s.length - 1 := by omega
  have hp : ((((2 : Int) ^ (s.length - 1)) - 1)).toNat = 2 ^ (s.length - 1) - 1 := by
    have : ((2 : Int) ^ (s.length - 1)) = ((2 ^ (s.length - 1) : Nat) : Int) := by simp
    rw [this]; omega
  simp only [hn, hp, two_pow_toNat, List.range_eq_range']
  have := foldl_bienLoop2 N binaryDerivative (fun k => N.ofNat (2 ^ k)) (s.length - 1) 0 s (N.ofNat 0) (N.ofNat 0)
  rw [this]

/-- **Source tie (C18), `tbien`.** For every arithmetic and every string the translated function is the model's `tbien`. -/
theorem tbien_source_tie (s : List Int) : Gen.BienLoops.tbien N s = Cpl.tbien N s := by
  unfold Gen.BienLoops.tbien Cpl.tbien
  have hn : (((s.length : Nat) : Int) - 1).toNat = s.length - 1 := by omega
  have hk : ∀ k : Nat, ((k : Int) + 2).toNat = k + 2 := by intro k; omega
  simp only [hn, hk, List.range_eq_range']
  have := foldl_bienLoop3 N binaryDerivative (fun k => N.log2 (N.ofNat (k + 2))) (s.length - 1) 0 s (N.ofNat 0) (N.ofNat 0)
  rw [this]

/-- **Source tie (C18), `ktbien`.** The same with the cyclic derivative. -/
theorem ktbien_source_tie (s : List Int) : Gen.BienLoops.ktbien N s = Cpl.ktbien N s := by
  unfold Gen.BienLoops.ktbien Cpl.ktbien
  have hn : (((s.length : Nat) : Int) - 1).toNat = s.length - 1 := by omega
  have hk : ∀ k : Nat, ((k : Int) + 2).toNat = k + 2 := by intro k; omega
  simp only [hn, hk, List.range_eq_range']
  have := foldl_bienLoop3 N cyclicBinaryDerivative (fun k => N.log2 (N.ofNat (k + 2))) (s.length - 1) 0 s (N.ofNat 0) (N.ofNat 0)
  rw [this]

/-- Non-vacuity (a test): the translated Float computation on a concrete string is the model's. -/
example : (Gen.BienLoops.tbien floatNum [0, 1, 1, 0, 1]).toBits = (Cpl.tbien floatNum [0, 1, 1, 0, 1]).toBits := by
  rw [tbien_source_tie]

end Cpl.C18tie
