import Cpl.Py
import Cpl.Ties.C10Lemmas

/-!
# Helper lemmas for the comprehension ties (`Cpl/Ties/C01.lean`, `C16.lean`, `C19.lean`)
(independent of the generated files of any one of them)
`List.mapM` / `List.filterM` in the `Option` monad when no element raises, `pyMax` on a non-empty list of
non-negative numbers, `Py.getIdx` inside the bounds.
-/

namespace Cpl.C19tie
open Cpl

theorem mapM_some {α β : Type} (f : α → Option β) (g : α → β) (l : List α) (h : ∀ a ∈ l, f a = some (g a)) :
    l.mapM f = some (l.map g) := by
  induction l with
  | nil => rfl
  | cons x xs ih =>
    have hx := h x (by simp)
    have hxs := ih (fun a ha => h a (by simp [ha]))
    simp [List.mapM_cons, hx, hxs]

theorem filterAuxM_some {α : Type} (f : α → Option Bool) (p : α → Bool) (l acc : List α)
    (h : ∀ a ∈ l, f a = some (p a)) :
    List.filterAuxM f l acc = some ((l.filter p).reverse ++ acc) := by
  induction l generalizing acc with
  | nil => rfl
  | cons x xs ih =>
    have hx := h x (by simp)
    have hxs := fun acc => ih acc (fun a ha => h a (by simp [ha]))
    simp only [List.filterAuxM, hx, Option.bind_eq_bind, Option.bind_some, hxs]
    cases hp : p x <;> simp [List.filter, hp]

theorem filterM_some {α : Type} (f : α → Option Bool) (p : α → Bool) (l : List α) (h : ∀ a ∈ l, f a = some (p a)) :
    l.filterM f = some (l.filter p) := by
  simp [List.filterM, filterAuxM_some f p l [] h]

theorem getIdx_nat (u : List Int) (k : Nat) (hk : k < u.length) :
    (Py.getIdx u (k : Int)).toOption = some (u[k]'hk) := by
  unfold Py.getIdx
  have h1 : ¬ ((k : Int) < 0) := by omega
  simp [h1, hk, Except.toOption]

end Cpl.C19tie
