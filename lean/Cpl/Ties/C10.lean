import Cpl.Gen.Blocks
import Cpl.Model.Block
import Cpl.Ties.C10Lemmas

/-!
# C10 — the block-partition construction inside `evolve_block` / `evolve2d_block` equals the model, for all sizes

`Cpl.Gen.Blocks.blockIndices1` / `blockIndices2` are regenerated on every run by `tools/py2lean_frag.py` from the
statements of `/repo/cellpylib/ca_functions.py: evolve_block` and `ca_functions2d.py: evolve2d_block` that build
`block_indices_odd` and `block_indices_even` (a backward slice of the function body; the NumPy parts of the functions
are not translated). The theorems of `Cpl/Properties/C10.lean` (both partitions are explicit, permutations of the cells,
shifted by one cell on even steps) are about the model's `blockIndicesOdd/Even`, `blockIndices2Odd/Even`
(`Cpl/Model/Block.lean`). Outside the translated subset (validated through the correspondence): `range`, list slicing and
negative indexing as modelled in `Cpl/Py.lean` / `pyRange`; how the index lists are used (`cells[stride]`, `np.ix_`).
-/

namespace Cpl.C10tie
open Cpl

def natss (l : List (List Nat)) : List (List Int) := l.map fun b => b.map Int.ofNat

def natpairs (l : List (List Nat × List Nat)) : List (List Int × List Int) :=
  l.map fun p => (p.1.map Int.ofNat, p.2.map Int.ofNat)

/-- **Source tie (C10), 1-D partitions.** For every ring size `N ≥ 1` and block size `b ≥ 1` (divisible or not: the
    library rejects the non-divisible case before it gets here) the translated statements build exactly the model's
    odd-step and even-step block index lists, and do not raise. -/
theorem blockIndices1_source_tie (N b : Nat) (hN : 1 ≤ N) (hb : 1 ≤ b) :
    Gen.Blocks.blockIndices1 (N : Int) (b : Int) = some (natss (blockIndicesOdd N b), natss (blockIndicesEven N b)) := by
  unfold Gen.Blocks.blockIndices1
  have hne : (List.range N).map Int.ofNat ≠ [] := by
    intro h; have := congrArg List.length h; simp at this; omega
  simp only [pyRange_unit, chunks_tie _ _ hb, getIdx_last _ hne, sliceTo_last]
  obtain ⟨M, rfl⟩ : ∃ M, N = M + 1 := ⟨N - 1, by omega⟩
  simp only [natss, blockIndicesOdd, blockIndicesEven, List.range_succ, List.map_append, List.map_cons, List.map_nil,
    List.getLast?_append, List.getLast?_singleton, Option.some_or, List.dropLast_concat, Option.toList_some,
    ← chunks_map]
  rfl

/-- **Source tie (C10), 2-D partitions.** For every grid `R × C` with `R, C ≥ 1` and block `b0 × b1` with `b0, b1 ≥ 1`
    that divides the grid (the library's check), the translated statements build exactly the model's tile lists. -/
theorem blockIndices2_source_tie (R C b0 b1 : Nat) (hR : 1 ≤ R) (hC : 1 ≤ C) (h0 : 1 ≤ b0) (h1 : 1 ≤ b1)
    (hd0 : R % b0 = 0) (hd1 : C % b1 = 0) :
    Gen.Blocks.blockIndices2 (R : Int) (C : Int) (b0 : Int) (b1 : Int)
      = some (natpairs (blockIndices2Odd R C b0 b1), natpairs (blockIndices2Even R C b0 b1)) := by
  -- `hR hC hd0 hd1` are not needed: the two constructions agree for every `R, C ≥ 0` and `b0, b1 ≥ 1`
  have _ := And.intro (And.intro hR hC) (And.intro hd0 hd1)
  unfold Gen.Blocks.blockIndices2
  simp only [Option.bind_eq_bind, Option.bind_some, Option.pure_def, forIn_append, List.nil_append,
    ← List.map_eq_flatMap]
  have hodd : List.flatMap
      (fun a => List.map (fun a_1 => (pyRange a (a + (b0 : Int)) 1, pyRange a_1 (a_1 + (b1 : Int)) 1))
        (pyRange 0 (C : Int) (b1 : Int)))
      (pyRange 0 (R : Int) (b0 : Int)) = natpairs (blockIndices2Odd R C b0 b1) := by
    rw [pyRange_step _ _ h0, pyRange_step _ _ h1]
    simp only [natpairs, blockIndices2Odd, List.flatMap_map, List.map_flatMap, List.map_map, Function.comp_def,
      pyRange_from]
    rfl
  rw [hodd]
  congr 2
  simp only [natpairs, blockIndices2Even, List.map_map, Function.comp_def, Int.ofNat_eq_natCast, fmod_succ]

end Cpl.C10tie
