import Cpl.Gen.Blocks
import Cpl.Model.Evolve2D

/-!
# C02 — the wrapped neighbourhood index lists built inside `_get_neighbourhood_indices` equal the model, for all sizes

`Cpl.Gen.Blocks.nbIndices2` is regenerated on every run by `tools/py2lean_frag.py` from the body of the two nested cell
loops of `/repo/cellpylib/ca_functions2d.py: _get_neighbourhood_indices` (the statements that build `row_indices` and
`col_indices` for one cell; `rows`, `cols`, `r`, `row`, `col` are its parameters). The theorems of
`Cpl/Properties/C02.lean` (the lists resolve to `(start − r + k) mod n`) are about the model's `axisIdx`
(`Cpl/Model/Evolve2D.lean`). Not translated (validated through the correspondence): the dictionary the lists are stored
in, `np.ix_` and NumPy's negative-index resolution, the mask.
-/

namespace Cpl.C02tie
open Cpl

theorem pyRange_one (a : Int) (n : Nat) :
    pyRange a (a + (n : Int)) 1 = (List.range n).map fun (k : Nat) => a + (k : Int) := by
  unfold pyRange
  by_cases hn : n = 0
  · subst hn; simp
  · have h1 : ¬ ((1 : Int) ≤ 0 ∨ a + (n : Int) ≤ a) := by omega
    simp only [h1, if_false]
    have : ((a + (n : Int) - a + 1 - 1) / 1).toNat = n := by
      rw [Int.ediv_one]; omega
    rw [this]
    apply List.map_congr_left
    intro k _
    omega

/-- **Source tie (C02).** For every grid size, radius and cell: the translated statements build exactly the model's
    row and column index lists (high side wrapped by subtraction, low side left negative), and do not raise. -/
theorem nbIndices2_source_tie (R C r row col : Nat) :
    Gen.Blocks.nbIndices2 (R : Int) (C : Int) (r : Int) (row : Int) (col : Int)
      = some (axisIdx R row 1 r, axisIdx C col 1 r) := by
  unfold Gen.Blocks.nbIndices2 axisIdx
  have hr : ((row : Int) + (r : Int) + 1) = ((row : Int) - (r : Int)) + ((1 + 2 * r : Nat) : Int) := by
    push_cast; omega
  have hc : ((col : Int) + (r : Int) + 1) = ((col : Int) - (r : Int)) + ((1 + 2 * r : Nat) : Int) := by
    push_cast; omega
  simp only [hr, hc, pyRange_one, List.map_map, pure, Function.comp_def]

end Cpl.C02tie
