import Cpl.Gen.Blocks
import Cpl.Model.Block

/-!
# Helper lemmas for the C10 source ties (`Cpl/Ties/C10.lean`)
`pyRange` on natural arguments, Python slices on natural bounds, `l[-1]`, `l[:-1]`, floor-mod on naturals.
-/

namespace Cpl.C10tie
open Cpl

theorem pyRange_step (n b : Nat) (hb : 1 ≤ b) :
    pyRange 0 (n : Int) (b : Int) = (List.range ((n + b - 1) / b)).map (fun i => ((i * b : Nat) : Int)) := by
  unfold pyRange
  by_cases hn : n = 0
  · subst hn
    have : (0 + b - 1) / b = 0 := by
      rw [Nat.div_eq_zero_iff]; omega
    rw [this]; simp
  · have h1 : ¬ ((b : Int) ≤ 0 ∨ (n : Int) ≤ 0) := by omega
    rw [if_neg h1]
    have h2 : (((n : Int) - 0 + (b : Int) - 1) / (b : Int)).toNat = (n + b - 1) / b := by
      have : (n : Int) - 0 + (b : Int) - 1 = ((n + b - 1 : Nat) : Int) := by omega
      rw [this, ← Int.natCast_ediv, Int.toNat_natCast]
    rw [h2]
    apply List.map_congr_left
    intro i _
    simp

theorem pyRange_unit (n : Nat) : pyRange 0 (n : Int) 1 = (List.range n).map Int.ofNat := by
  have := pyRange_step n 1 (by omega)
  simp only [Nat.add_sub_cancel, Nat.div_one, Nat.mul_one] at this
  exact this

theorem pyRange_from (a b : Nat) :
    pyRange (a : Int) ((a : Int) + (b : Int)) 1 = (List.range b).map (fun j => ((a + j : Nat) : Int)) := by
  unfold pyRange
  by_cases hb : b = 0
  · subst hb; simp
  · have h1 : ¬ ((1 : Int) ≤ 0 ∨ (a : Int) + (b : Int) ≤ (a : Int)) := by omega
    rw [if_neg h1]
    have h2 : (((a : Int) + (b : Int) - (a : Int) + 1 - 1) / 1).toNat = b := by
      have : (a : Int) + (b : Int) - (a : Int) + 1 - 1 = (b : Int) := by omega
      rw [this]; simp
    rw [h2]
    apply List.map_congr_left
    intro i _
    simp

theorem slice_nat {α : Type} (l : List α) (i b : Nat) :
    Py.slice l (i : Int) ((i : Int) + (b : Int)) = (l.drop i).take b := by
  unfold Py.slice
  have h1 : ¬ ((i : Int) < 0) := by omega
  have h2 : ¬ ((i : Int) + (b : Int) < 0) := by omega
  simp only [h1, h2, if_false]
  have e1 : (min (i : Int) (l.length : Int)).toNat = min i l.length := by omega
  have e2 : (min ((i : Int) + (b : Int)) (l.length : Int)).toNat = min (i + b) l.length := by omega
  rw [e1, e2]
  apply List.ext_getElem?
  intro k
  simp only [List.getElem?_drop, List.getElem?_take]
  by_cases hk : k < b
  · simp only [hk, if_true]
    by_cases hi : i ≤ l.length
    · rw [Nat.min_eq_left hi]
      by_cases h3 : i + k < l.length
      · have : i + k < min (i + b) l.length := by omega
        simp [this]
      · rw [List.getElem?_eq_none (by omega)]; split <;> rfl
    · rw [List.getElem?_eq_none (l := l) (i := i + k) (by omega)]; split
      · rw [List.getElem?_eq_none (by omega)]
      · rfl
  · simp only [hk, if_false]
    have : ¬ (min i l.length + k < min (i + b) l.length) := by omega
    simp [this]

theorem chunks_tie {α : Type} (l : List α) (b : Nat) (hb : 1 ≤ b) :
    (pyRange (0 : Int) (l.length : Int) (b : Int)).map (fun v_i => Py.slice l v_i (v_i + (b : Int))) = chunks b l := by
  rw [pyRange_step _ _ hb, chunks, List.map_map]
  apply List.map_congr_left
  intro i _
  simp only [Function.comp]
  exact slice_nat l (i * b) b

theorem chunks_map {α β : Type} (f : α → β) (l : List α) (b : Nat) :
    chunks b (l.map f) = (chunks b l).map (List.map f) := by
  simp [chunks, List.map_drop, List.map_take]

theorem getIdx_last {α : Type} (l : List α) (h : l ≠ []) :
    (Py.getIdx l (-(1 : Int))).toOption = l.getLast? := by
  unfold Py.getIdx
  have hl : 0 < l.length := List.length_pos_iff.mpr h
  have h1 : (-(1 : Int)) < 0 := by omega
  have h2 : ¬ (-(1 : Int) + (l.length : Int) < 0) := by omega
  simp only [h1, h2, if_true, if_false]
  have : (-(1 : Int) + (l.length : Int)).toNat = l.length - 1 := by omega
  rw [this, List.getLast?_eq_getElem?]
  rw [List.getElem?_eq_getElem (by omega)]
  rfl

theorem sliceTo_last {α : Type} (l : List α) : Py.sliceTo l (-(1 : Int)) = l.dropLast := by
  unfold Py.sliceTo
  have h1 : (-(1 : Int)) < 0 := by omega
  simp only [h1, if_true]
  have : (max ((l.length : Int) + -1) 0).toNat = l.length - 1 := by omega
  rw [this, List.dropLast_eq_take]

/-- An `Option`-monad `for` loop that only appends to its accumulator is a `flatMap`. -/
theorem forIn_append {α β : Type} (l : List α) (g : α → List β) (acc : List β) :
    (forIn (m := Option) l acc fun a s => some (ForInStep.yield (s ++ g a))) = some (acc ++ l.flatMap g) := by
  induction l generalizing acc with
  | nil => simp
  | cons a l ih =>
    simp only [List.forIn_cons, Option.bind_eq_bind, Option.bind_some, ih, List.flatMap_cons, List.append_assoc]

theorem fmod_succ (i R : Nat) : Int.fmod ((i : Int) + 1) (R : Int) = (((i + 1) % R : Nat) : Int) := by
  rw [Int.fmod_eq_emod_of_nonneg _ (by omega)]
  simp

end Cpl.C10tie
