import Cpl.Ties.Lemmas

/-!
# C14 — the translated source of `Sandpile.__call__` equals the model, for all inputs

`Cpl.Gen.sandpileCall` / `sandpileInBoundary` are regenerated from `/repo/cellpylib/sandpile.py` on every run; the
theorems of `Cpl/Properties/C14.lean` are about the hand model `sandpileRule`. The equality below is structural
(no enumeration): every configuration (`K`, `rows`, `cols`, `closed`, grain schedule), every (possibly masked)
neighbourhood, every cell and every timestep.
-/

namespace Cpl.C14
open Cpl Cpl.Gen Cpl.Ties

/-- How a `Sandpile` object with configuration `cfg`, looking at neighbourhood `n`, is presented to the
    translated code. -/
def envOfSandpile (cfg : SandpileCfg) (n : Nbhd2 Int) : Env :=
  { nb := fun i j => ((n.getD i []).getD j none).getD 0
    K := (cfg.K : Int)
    rows := (cfg.rows : Int)
    cols := (cfg.cols : Int)
    closed := cfg.closed
    grains := cfg.grains.map fun g => (V.pair (g.1.1 : Int) (g.1.2 : Int), V.int (g.2 : Int)) }

/-- The translated boundary test, for any environment and integer cell index. -/
theorem inBoundary_eq (env : Env) (a b : Int) :
    Gen.sandpileInBoundary env (V.pair a b)
      = V.bool (decide (a = 0 ∨ a = env.rows - 1 ∨ b = 0 ∨ b = env.cols - 1)) := by
  unfold Gen.sandpileInBoundary
  simp only [Id.run, pure, V.idx_pair_zero, V.idx_pair_one, V.sub_int, V.eq_int, ← Bool.decide_or, or_assoc]

/-- The translated `Sandpile.__call__` as a closed expression in the environment (loops eliminated):
    the grain loop with early return is an `any` test, the neighbour loop a counting fold. -/
theorem sandpileCall_eq (env : Env) (a b t : Int) :
    Gen.sandpileCall env (V.pair a b) (V.int t)
      = if env.closed = true ∧ (a = 0 ∨ a = env.rows - 1 ∨ b = 0 ∨ b = env.cols - 1) then V.int 0
        else if env.grains.any (fun g => V.eq (V.int t) g.2 && V.eq (V.pair a b) g.1) = true then
          V.int (env.nb 1 1 + 1)
        else
          V.int (if env.nb 1 1 ≥ env.K then
              [env.nb 0 1, env.nb 1 0, env.nb 1 2, env.nb 2 1].foldl
                (fun acc x => if x ≥ env.K then acc + 1 else acc) (env.nb 1 1) - env.K
            else
              [env.nb 0 1, env.nb 1 0, env.nb 1 2, env.nb 2 1].foldl
                (fun acc x => if x ≥ env.K then acc + 1 else acc) (env.nb 1 1)) := by
  unfold Gen.sandpileCall
  simp only [Id.run, pure, inBoundary_eq, V.truthy_bool]
  rw [forIn_earlyReturn_const env.grains (fun g => V.eq (V.int t) g.2 && V.eq (V.pair a b) g.1)]
  simp only [forIn_count, V.ge_int, Bool.and_eq_true, decide_eq_true_eq]
  rw [show ∀ a b c d : Int, [V.int a, V.int b, V.int c, V.int d] = [a, b, c, d].map V.int from
    fun _ _ _ _ => rfl, foldl_count_ge_ints]
  by_cases hb : env.closed = true ∧ (a = 0 ∨ a = env.rows - 1 ∨ b = 0 ∨ b = env.cols - 1)
  · simp only [hb, and_self, if_true]
  · simp only [hb, if_false]
    cases hgr : env.grains.any (fun g => V.eq (V.int t) g.2 && V.eq (V.pair a b) g.1)
    · simp only [Bool.false_eq_true, if_false, bind]
      by_cases hK : env.nb 1 1 ≥ env.K
      · simp only [hK, if_true]
        rfl
      · simp only [hK, if_false]
    · simp only [if_true]
      rfl

/-- The grain-schedule test of the translated loop is the model's `any`. -/
theorem grains_any (gr : List ((Nat × Nat) × Nat)) (c : Nat × Nat) (t : Nat) :
    (gr.map fun g => (V.pair (g.1.1 : Int) (g.1.2 : Int), V.int (g.2 : Int))).any
        (fun g => V.eq (V.int t) g.2 && V.eq (V.pair c.1 c.2) g.1)
      = gr.any (fun g => decide (g.2 = t ∧ g.1 = c)) := by
  rw [List.any_map]
  congr 1
  funext g
  obtain ⟨⟨g1, g2⟩, gt⟩ := g
  obtain ⟨c1, c2⟩ := c
  simp only [Function.comp, V.eq_int, V.eq_pair, ← Bool.decide_and]
  apply decide_eq_decide.mpr
  simp only [Prod.mk.injEq]
  omega

/-- **Translated `Sandpile.__call__` = model, for all configurations, neighbourhoods, cells, steps and grain
    schedules.** No side condition is needed: for `rows = 0` the model's truncated `rows - 1 = 0` coincides with
    the first disjunct `c.1 = 0`, while the source's `rows - 1 = -1` is never a cell index (same for `cols`). -/
theorem sandpile_source_tie (cfg : SandpileCfg) (n : Nbhd2 Int) (c : Nat × Nat) (t : Nat) :
    Gen.sandpileCall (envOfSandpile cfg n) (V.pair c.1 c.2) (V.int t) = V.int (sandpileRule cfg n c t) := by
  rw [sandpileCall_eq]
  unfold sandpileRule
  have hg := grains_any cfg.grains c t
  have hb : ((c.1 : Int) = 0 ∨ (c.1 : Int) = (cfg.rows : Int) - 1 ∨ (c.2 : Int) = 0 ∨ (c.2 : Int) = (cfg.cols : Int) - 1)
      ↔ (c.1 = 0 ∨ c.1 = cfg.rows - 1 ∨ c.2 = 0 ∨ c.2 = cfg.cols - 1) := by omega
  simp only [envOfSandpile, hg, hb]
  by_cases h1 : cfg.closed = true ∧ (c.1 = 0 ∨ c.1 = cfg.rows - 1 ∨ c.2 = 0 ∨ c.2 = cfg.cols - 1)
  · simp only [h1, and_self, if_true]
  · simp only [h1, if_false]
    by_cases h2 : cfg.grains.any (fun g => decide (g.2 = t ∧ g.1 = c)) = true
    · simp only [h2, if_true]
    · simp only [h2, Bool.false_eq_true, if_false]
      rfl

end Cpl.C14
