import Cpl.Gen.FixedPoint
import Cpl.Model.Evolve1D

/-!
# C06 — the predicate returned by `until_fixed_point()` as written equals the model's, for every evolution

`Cpl.Gen.FixedPoint.untilFixedPoint` is regenerated on every run by `tools/py2lean_comp.py` from
`/repo/cellpylib/ca_functions.py: until_fixed_point` (the nested `_timesteps(ca, t)`): `len(ca) > 1`, the rows `ca[-2]`,
`ca[-1]`, `(… == …).all()`. The theorems of `Cpl/Properties/C06.lean` ("`until_fixed_point` stops exactly at the first fixed
point", 1-D and 2-D) are about the model's `untilFixedPoint` (`Cpl/Model/Evolve1D.lean`).

Outside (modelled; validated through the correspondence): the evolution handed to the predicate as the list of its rows
(`np.array(array)`), `(a == b).all()` on two states of one automaton = equality of the rows (`Cpl.rowsEqAll`), how `evolve`
consults the predicate (the dynamic loop, `Cpl/Model/Evolve1D.lean: dynLoop`).
-/

namespace Cpl.C06tie
open Cpl

theorem getIdx_neg {α : Type} (l : List α) (k : Nat) (hk : 1 ≤ k) (hl : k ≤ l.length) :
    (Py.getIdx l (-(k : Int))).toOption = l[l.length - k]? := by
  unfold Py.getIdx
  have h1 : (-(k : Int)) < 0 := by omega
  have h2 : ¬ (-(k : Int) + (l.length : Int) < 0) := by omega
  have h3 : (-(k : Int) + (l.length : Int)).toNat = l.length - k := by omega
  simp only [h1, if_true, h2, if_false, h3]
  have h4 : l.length - k < l.length := by omega
  simp [h4, Except.toOption]

/-- **Source tie (C06).** For every evolution so far (any number of rows, any states) and every `t`, the translated predicate
    answers what the model's `untilFixedPoint` answers, and does not raise. -/
theorem untilFixedPoint_source_tie (ca : List (List Int)) (t : Nat) :
    Gen.FixedPoint.untilFixedPoint ca (t : Int) = some (Cpl.untilFixedPoint ca t) := by
  unfold Gen.FixedPoint.untilFixedPoint Cpl.untilFixedPoint
  by_cases h : ca.length > 1
  · have hd : decide (((ca.length : Nat) : Int) > 1) = true := by simp; omega
    have e2 : (-2 : Int) = -((2 : Nat) : Int) := rfl
    have e1 : (-1 : Int) = -((1 : Nat) : Int) := rfl
    have h2 : ca.length - 2 < ca.length := by omega
    have h1 : ca.length - 1 < ca.length := by omega
    simp only [hd, if_true, e2, e1, getIdx_neg ca 2 (by omega) (by omega), getIdx_neg ca 1 (by omega) (by omega), h, rowsEqAll]
    simp [h2, h1]
  · have hd : decide (((ca.length : Nat) : Int) > 1) = false := by simp; omega
    simp [hd, h]

example : Gen.FixedPoint.untilFixedPoint [[0, 1], [1, 1], [1, 1]] 3 = some false := by decide

end Cpl.C06tie
