import Cpl.Driver.Proto
import Cpl.Model.DslBlock

namespace Cpl.Driver
open Cpl.Proto Cpl Cpl.DslBlock

def showBCalls (log : List (List Int × Nat)) : String :=
  if log.isEmpty then "_" else
    String.intercalate "/" (log.reverse.map fun (b, t) => showVec b ++ "@" ++ toString t)

def opsBlock (op : String) (a : Args) : Option String :=
  match op with
  | "evolve_block" => some <|
    match argMat a "hist", argNat a "b", argNat a "T", (arg a "rule").bind parseBRule with
    | some hist, some b, some T, some rl =>
      match hist.getLast? with
      | none => "out-of-model"
      | some row =>
        if b = 0 || !(hist.all fun x => x.length == row.length) then "out-of-model"
        else match evolveBlock hist b T rl.toRule1 {} with
          | .ok (rows, st) => "ok rows=" ++ showMat rows ++ " calls=" ++ showBCalls st.log
          | .error e => showErr e
    | _, _, _, _ => badOp
  | "evolve2d_block" => some <|
    match argHist a "hist", argNatVec a "b", argNat a "T", (arg a "rule").bind parseBRule with
    | some hist, some [b0, b1], some T, some rl =>
      match hist.getLast? with
      | none => "out-of-model"
      | some g =>
        if b0 = 0 || b1 = 0 || g.length = 0 || gridCols g = 0 then "out-of-model"
        else match rl with
          | .short => "out-of-model"
          | _ =>
            match evolve2dBlock hist b0 b1 T rl.toRule2 {} with
            | .ok (gs, st) => "ok grids=" ++ showHist gs ++ " calls=" ++ showBCalls st.log
            | .error e => showErr e
    | _, _, _, _ => badOp
  | _ => none

end Cpl.Driver
