import Cpl.Driver.Proto
import Cpl.Model.Dsl
import Cpl.Model.DynS

namespace Cpl.Driver
open Cpl.Proto Cpl Cpl.Dsl

def showCalls (log : List (List Int × Nat × Nat)) : String :=
  if log.isEmpty then "_" else
    String.intercalate "/" (log.reverse.map fun (n, c, t) => showVec n ++ "@" ++ toString c ++ "@" ++ toString t)

def showEvolve : Except Py.Err (List (List Int) × St) → String
  | .ok (rows, st) => "ok rows=" ++ showMat rows ++ " calls=" ++ showCalls st.log
  | .error e => showErr e

/-- The driver refuses inputs outside the modelled contract instead of guessing. -/
def inContract1D (hist : List (List Int)) (r : Nat) : Bool :=
  match hist.getLast? with
  | none => true
  | some row => hist.all (fun x => x.length == row.length) && decide (1 ≤ r) && decide (r ≤ row.length)

def ruleOk (rl : Rule) (hist : List (List Int)) (r : Nat) : Bool :=
  match rl with
  | .nks R => hist.all (fun row => row.all fun x => x == 0 || x == 1) && decide (R < 2 ^ (2 ^ (2 * r + 1)))
  | .total k _ => hist.all (fun row => row.all fun x => decide (0 ≤ x) && decide (x < k))
  | _ => true

def opsEvolve1D (op : String) (a : Args) : Option String :=
  match op with
  | "evolve1d" => some <|
    match argMat a "hist", argNat a "r", (arg a "mode").bind parseMode, (arg a "rule").bind parseRule with
    | some hist, some r, some mode, some rl =>
      if !(inContract1D hist r) || !(ruleOk rl hist r) then "out-of-model"
      else
        match argNat a "T", (arg a "pred").bind parsePred with
        | some T, none => showEvolve (evolveFixed hist T rl.toRule1 r mode {})
        | none, some p =>
          let fuel := (argNat a "fuel").getD 10000
          -- the stateful-callable model with a recording predicate (C06.dynS_pure: same result as `evolveDynamic`)
          match evolveDynamicS fuel hist (recPred p.eval) rl.toRule1 r mode {} [] with
          | none => "out-of-fuel"
          | some (.error e) => showErr e
          | some (.ok (rows, st, log)) =>
            let base := showEvolve (.ok (rows, st))
            if (arg a "consults") == some "1" then
              base ++ " consults=" ++ String.intercalate "/" (log.map fun (rs, t) => showMat rs ++ "@" ++ toString t)
            else base
        | _, _ => badOp
    | _, _, _, _ => badOp
  | "index_strides" => some <|
    match argNat a "N", argNat a "r" with
    | some N, some r => "ok " ++ showMat ((indexStrides N r).map (·.map Int.ofNat))
    | _, _ => badOp
  | _ => none

end Cpl.Driver
