import Cpl.Driver.Proto
import Cpl.Model.Bits

namespace Cpl.Driver
open Cpl.Proto Cpl

def showExInt : Except Py.Err Int → String
  | .ok v => "ok " ++ toString v
  | .error e => showErr e

def parseRuleArg (a : Args) : Option RuleArg :=
  match argNat a "rule" with
  | some n => some (.num n)
  | none => (argVec a "rulebits").map .bits

def parseScheme (a : Args) : Option Bool :=
  match arg a "scheme" with
  | some "nks" => some true
  | some "none" => some false
  | _ => none

def opsBits (op : String) (a : Args) : Option String :=
  match op with
  | "bits_to_int" => some <|
    match argVec a "bits" with
    | some b => "ok " ++ toString (bitsToInt b)
    | none => badOp
  | "int_to_bits" => some <|
    match argNat a "num", argNat a "d" with
    | some n, some d =>
      match intToBits n d with
      | .ok v => "ok " ++ showVec v
      | .error e => showErr e
    | _, _ => badOp
  | "binary_rule" => some <|
    match argVec a "n", parseRuleArg a, parseScheme a with
    | some n, some r, some s =>
      let pow := argVec a "pow"
      if (arg a "pow").isSome && pow.isNone then badOp
      else showExInt (binaryRule n r s pow)
    | _, _, _ => badOp
  | "nks_rule" => some <|
    match argVec a "n", argNat a "rule" with
    | some n, some r => showExInt (nksRule n r)
    | _, _ => badOp
  | _ => none

end Cpl.Driver
