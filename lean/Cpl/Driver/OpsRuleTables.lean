import Cpl.Driver.Proto
import Cpl.Model.RuleTables

namespace Cpl.Driver
open Cpl.Proto Cpl

def showRTable (t : RTable) : String :=
  if t.isEmpty then "_" else
    String.intercalate ";" (t.map fun (key, v) =>
      String.intercalate "," (key.map toString) ++ ":" ++ toString v)

def parseRTable (s : String) : Option RTable :=
  if s == "_" then some [] else
    (s.splitOn ";").mapM fun e =>
      match e.splitOn ":" with
      | [ks, v] => do
        let key ← if ks == "" then some [] else (ks.splitOn ",").mapM String.toNat?
        pure (key, ← v.toNat?)
      | _ => none

def flag (a : Args) (k : String) : Option Bool := (argNat a k).map (· != 0)

def opsRuleTables (op : String) (a : Args) : Option String :=
  match op with
  | "rrt" => some <|
    match argNat a "k", argNat a "r", argNat a "q", flag a "sq", flag a "iso", argVec a "oracle" with
    | some k, some r, some q, some sq, some iso, some orc =>
      if k < 2 || k > 36 then "out-of-model" else
      let oracle : RrtOracle := fun i => match orc[i]? with
        | some x => if x < 0 then none else some x.toNat
        | none => none
      match randomRuleTable k r q sq iso oracle with
      | .ok st => "ok table=" ++ showRTable st.table ++ " count=" ++ toString st.count ++ " used=" ++ toString st.used
      | .error e => showErr e
    | _, _, _, _, _, _ => badOp
  | "walk" => some <|
    match (arg a "table").bind parseRTable, argNat a "num", argNat a "den", argNat a "k", argNat a "r",
        argNat a "q", flag a "sq", flag a "iso", argMat a "oracle" with
    | some t, some num, some den, some k, some r, some q, some sq, some iso, some orc =>
      if k < 2 || k > 36 || den = 0 then "out-of-model" else
      let oracle : WalkOracle := fun i => match orc[i]? with
        | some [x, y] => (x.toNat, y.toNat)
        | _ => (0, 0)
      let st := tableWalkThrough t num den k r q sq iso oracle
      "ok table=" ++ showRTable st.table ++ " count=" ++ toString (quiescentCount st.table q) ++ " used=" ++ toString st.used
    | _, _, _, _, _, _, _, _, _ => badOp
  | "table_rule" => some <|
    match (arg a "table").bind parseRTable, argNatVec a "n" with
    | some t, some n => match tableRule n t with
      | .ok v => "ok " ++ toString v
      | .error e => showErr e
    | _, _ => badOp
  | _ => none

end Cpl.Driver
