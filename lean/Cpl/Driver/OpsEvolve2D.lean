import Cpl.Driver.Proto
import Cpl.Model.Dsl2
import Cpl.Model.DynS

namespace Cpl.Driver
open Cpl.Proto Cpl Cpl.Dsl

def showCalls2 (log : List (Nbhd2 Int × (Nat × Nat) × Nat)) : String :=
  if log.isEmpty then "_" else
    String.intercalate "/" (log.reverse.map fun (n, c, t) =>
      showOMat n ++ "@" ++ toString c.1 ++ "," ++ toString c.2 ++ "@" ++ toString t)

def showEvolve2 : Except Py.Err (List (Grid Int) × St2) → String
  | .ok (gs, st) => "ok grids=" ++ showHist gs ++ " calls=" ++ showCalls2 st.log
  | .error e => showErr e

def inContract2D (hist : List (Grid Int)) (r : Nat) : Bool :=
  match hist.getLast? with
  | none => true
  | some g =>
    let R := g.length
    let C := gridCols g
    decide (1 ≤ R) && decide (1 ≤ C) && decide (r ≤ R) && decide (r ≤ C) &&
      hist.all (fun x => x.length == R && x.all (fun row => row.length == C))

def opsEvolve2D (op : String) (a : Args) : Option String :=
  match op with
  | "evolve2d" => some <|
    match argHist a "hist", argNat a "r", (arg a "mode").bind parseMode, (arg a "rule").bind parseRule,
        (arg a "nb").bind parseNb with
    | some hist, some r, some mode, some rl, some nb =>
      if !(inContract2D hist r) then "out-of-model"
      else
        match rl with
        | .nks _ => "out-of-model"
        | _ =>
          match argNat a "T", (arg a "pred").bind parsePred with
          | some T, none => showEvolve2 (evolve2dFixed hist T rl.toRule2 r nb mode {})
          | none, some p =>
            let fuel := (argNat a "fuel").getD 10000
            match evolve2dDynamicS fuel hist (recPred2 p.eval2) rl.toRule2 r nb mode {} [] with
            | none => "out-of-fuel"
            | some (.error e) => showErr e
            | some (.ok (gs, st, log)) =>
              let base := showEvolve2 (.ok (gs, st))
              if (arg a "consults") == some "1" then
                base ++ " consults=" ++ String.intercalate "/" (log.map fun (hs, t) => showHist hs ++ "@" ++ toString t)
              else base
          | _, _ => badOp
    | _, _, _, _, _ => badOp
  | "vn_mask" => some <|
    match argNat a "r" with
    | some r => "ok " ++ showMat ((vonNeumannMask r).map (·.map fun b => if b then 1 else 0))
    | none => badOp
  | _ => none

end Cpl.Driver
