import Cpl.Driver.Proto
import Cpl.Model.Ctrbl

namespace Cpl.Driver
open Cpl.Proto Cpl Cpl.Gen

def toKey5 (v : List Int) : Option Key5 :=
  match v with
  | [c, t, r, b, l] => some (c, t, r, b, l)
  | _ => none

def parseEntries (m : List (List Int)) : Option (List (Key5 × Int)) :=
  m.mapM fun row => match row with
    | [c, t, r, b, l, img] => some ((c, t, r, b, l), img)
    | _ => none

def showOpt : Option Int → String
  | some v => toString v
  | none => "N"

def showEx : Except Py.Err Int → String
  | .ok v => toString v
  | .error _ => "E"

/-- All `(t, r, b, l)` over `0..m-1` in lexicographic order. -/
def trblAll (m : Nat) : List (Int × Int × Int × Int) :=
  let xs : List Int := (List.range m).map Int.ofNat
  xs.flatMap fun t => xs.flatMap fun r => xs.flatMap fun b => xs.map fun l => (t, r, b, l)

/-- Latest binding per key, keys sorted is done by the harness; here: keep first occurrence (latest first). -/
def dedupe (tbl : Table) : Table :=
  tbl.foldl (fun acc (k, v) => if acc.any (fun e => e.1 == k) then acc else acc ++ [(k, v)]) []

def opsCtrbl (op : String) (a : Args) : Option String :=
  match op with
  | "loop_batch" => some <|
    match arg a "loop", argInt a "c", argNat a "m" with
    | some loop, some c, some m =>
      let keys := (trblAll m).map fun (t, r, b, l) => (c, t, r, b, l)
      match loop with
      | "langton" => "ok " ++ String.intercalate "," (keys.map fun k => showEx (langtonLoop k))
      | "sdsr" => "ok " ++ String.intercalate "," (keys.map fun k => showOpt (sdsrLoop k))
      | "evoloop" => "ok " ++ String.intercalate "," (keys.map fun k => showOpt (evoloop k))
      | _ => badOp
    | _, _, _ => badOp
  | "loop_call" => some <|
    match arg a "loop", (argVec a "key").bind toKey5 with
    | some "langton", some k => "ok " ++ showEx (langtonLoop k)
    | some "sdsr", some k => "ok " ++ showOpt (sdsrLoop k)
    | some "evoloop", some k => "ok " ++ showOpt (evoloop k)
    | _, _ => badOp
  | "ctrbl_table" => some <|
    match (argMat a "entries").bind parseEntries, argNat a "rot" with
    | some es, some rot =>
      let tbl := dedupe (initTable es (rot != 0))
      "ok " ++ showMat (tbl.map fun ((c, t, r, b, l), v) => [c, t, r, b, l, v])
    | _, _ => badOp
  | "ctrbl_call" => some <|
    match (argMat a "entries").bind parseEntries, argNat a "rot", argMat a "n" with
    | some es, some rot, some n => "ok " ++ showEx (ctrblCall (initTable es (rot != 0)) (keyOf n))
    | _, _, _ => badOp
  | "loop_tables" => some <|
    "ok langton=" ++ toString (dedupe langtonTable).length ++ " sdsr=" ++ toString (dedupe sdsrTable).length
      ++ " evoloop=" ++ toString (dedupe evoloopTable).length
  | _ => none

end Cpl.Driver
