import Cpl.Driver.Proto
import Cpl.Model.Measures

namespace Cpl.Driver
open Cpl.Proto Cpl

def fbits (x : Float) : String := "f=" ++ toString x.toBits.toNat

def showCounts (cs : List (Int × Nat)) : String :=
  if cs.isEmpty then "_" else String.intercalate ";" (cs.map fun (s, c) => toString s ++ ":" ++ toString c)

def showJCounts (cs : List ((Int × Int) × Nat)) : String :=
  if cs.isEmpty then "_" else
    String.intercalate ";" (cs.map fun ((x, y), c) => toString x ++ "," ++ toString y ++ ":" ++ toString c)

def opsMeasures (op : String) (a : Args) : Option String :=
  let N := floatNum
  match op with
  | "shannon" => some <| match argVec a "s" with
    | some s => "ok " ++ fbits (shannon N s) ++ " counts=" ++ showCounts (symCounts s)
    | none => badOp
  | "joint" => some <| match argVec a "x", argVec a "y" with
    | some x, some y =>
      if x.length != y.length then "out-of-model"
      else "ok " ++ fbits (jointShannon N x y) ++ " counts=" ++ showJCounts (jointCounts x y)
    | _, _ => badOp
  | "mi" => some <| match argVec a "x", argVec a "y" with
    | some x, some y => if x.length != y.length then "out-of-model" else "ok " ++ fbits (mutualInformation N x y)
    | _, _ => badOp
  | "ace" => some <| match argMat a "ca" with
    | some ca => "ok " ++ fbits (averageCellEntropy N ca)
    | none => badOp
  | "ami" => some <| match argMat a "ca", argInt a "d" with
    | some ca, some d => match averageMutualInformation N ca d with
      | .ok f => "ok " ++ fbits f
      | .error e => showErr e
    | _, _ => badOp
  | "bderiv" => some <| match argVec a "s" with
    | some s => "ok " ++ showVec (binaryDerivative s)
    | none => badOp
  | "cbderiv" => some <| match argVec a "s" with
    | some s => "ok " ++ showVec (cyclicBinaryDerivative s)
    | none => badOp
  | "bien" => some <| match argVec a "s" with
    | some s => if s.length < 2 then "out-of-model" else "ok " ++ fbits (bien N s)
    | none => badOp
  | "tbien" => some <| match argVec a "s" with
    | some s => if s.length < 2 then "out-of-model" else "ok " ++ fbits (tbien N s)
    | none => badOp
  | "ktbien" => some <| match argVec a "s" with
    | some s => if s.length < 2 then "out-of-model" else "ok " ++ fbits (ktbien N s)
    | none => badOp
  | "apen" => some <| match argVec a "u", argNat a "m", argInt a "r" with
    | some u, some m, some r =>
      if u.length < m + 1 || m < 1 then "out-of-model"
      else
        let cnts (mm : Nat) := let ws := windows u mm; ws.map fun xi => (matchCount ws r xi : Int)
        "ok " ++ fbits (apen N u m r) ++ " counts=" ++ showVec (cnts m) ++ "|" ++ showVec (cnts (m + 1))
    | _, _, _ => badOp
  | _ => none

end Cpl.Driver
