import Cpl.Py

/-!
# Line protocol helpers (driver side)

`op key=value key=value …` — ints in decimal, vectors `1,0,1` (`_` = empty), matrices rows
joined by `;`, grid histories joined by `|`. Anything malformed answers `bad-op`.
-/

namespace Cpl.Proto

abbrev Args := List (String × String)

def parseLine (s : String) : String × Args :=
  match (s.trimAscii.toString.splitOn " ").filter (· ≠ "") with
  | [] => ("", [])
  | op :: rest =>
    (op, rest.filterMap fun tok =>
      match tok.splitOn "=" with
      | [k, v] => some (k, v)
      | _ => none)

def arg (a : Args) (k : String) : Option String := (a.find? (·.1 == k)).map (·.2)

def argInt (a : Args) (k : String) : Option Int := (arg a k).bind String.toInt?
def argNat (a : Args) (k : String) : Option Nat := (arg a k).bind String.toNat?

def parseVec (s : String) : Option (List Int) :=
  if s == "_" then some [] else (s.splitOn ",").mapM String.toInt?

def parseNatVec (s : String) : Option (List Nat) :=
  if s == "_" then some [] else (s.splitOn ",").mapM String.toNat?

def parseMat (s : String) : Option (List (List Int)) :=
  if s == "_" then some [] else (s.splitOn ";").mapM parseVec

def parseHist (s : String) : Option (List (List (List Int))) := (s.splitOn "|").mapM parseMat

def argVec (a : Args) (k : String) : Option (List Int) := (arg a k).bind parseVec
def argNatVec (a : Args) (k : String) : Option (List Nat) := (arg a k).bind parseNatVec
def argMat (a : Args) (k : String) : Option (List (List Int)) := (arg a k).bind parseMat
def argHist (a : Args) (k : String) : Option (List (List (List Int))) := (arg a k).bind parseHist

def showVec (v : List Int) : String :=
  if v.isEmpty then "_" else String.intercalate "," (v.map toString)
def showNatVec (v : List Nat) : String :=
  if v.isEmpty then "_" else String.intercalate "," (v.map toString)
def showMat (m : List (List Int)) : String :=
  if m.isEmpty then "_" else String.intercalate ";" (m.map showVec)
def showHist (h : List (List (List Int))) : String := String.intercalate "|" (h.map showMat)

/-- Masked vectors / matrices: `none` is printed as `x`. -/
def showOVec (v : List (Option Int)) : String :=
  if v.isEmpty then "_" else
    String.intercalate "," (v.map fun | some x => toString x | none => "x")
def showOMat (m : List (List (Option Int))) : String :=
  if m.isEmpty then "_" else String.intercalate ";" (m.map showOVec)

def showErr (e : Py.Err) : String := "err " ++ e.name

def badOp : String := "bad-op"

end Cpl.Proto
