import Cpl.Driver.Proto
import Cpl.Driver.OpsEvolve1D
import Cpl.Driver.OpsEvolve2D
import Cpl.Model.Rules
import Cpl.Gen.Tables

namespace Cpl.Driver
open Cpl.Proto Cpl Cpl.Dsl

def parseOMat (s : String) : Option (Nbhd2 Int) :=
  if s == "_" then some [] else
    (s.splitOn ";").mapM fun row =>
      if row == "_" then some [] else
        (row.splitOn ",").mapM fun tok => if tok == "x" then some none else (tok.toInt?).map some

def toPairs (m : List (List Int)) : Option (List (Nat × Nat)) :=
  m.mapM fun row => match row with
    | [a, b] => if a ≥ 0 ∧ b ≥ 0 then some (a.toNat, b.toNat) else none
    | _ => none

def binaryHist (hist : List (List Int)) : Bool := hist.all fun row => row.all fun x => x == 0 || x == 1

def opsRules (op : String) (a : Args) : Option String :=
  match op with
  | "totalistic" => some <|
    match (arg a "n").bind parseOMat, argNat a "k", argNat a "rule" with
    | some n, some k, some rule =>
      match totalisticRuleOn n k rule with
      | .ok v => "ok " ++ toString v
      | .error e => showErr e
    | _, _, _ => badOp
  | "gol" => some <|
    match argMat a "n" with
    | some n => match golRule n with
      | some v => "ok " ++ toString v
      | none => "ok None"
    | none => badOp
  | "life" => some <|
    match argHist a "hist", argNat a "T", (arg a "mode").bind parseMode with
    | some hist, some T, some mode =>
      if !(inContract2D hist 1) || !(hist.all fun g => g.all fun row => row.all fun x => x == 0 || x == 1) then "out-of-model"
      else
        let rule : Rule2 Unit Int := fun u n _ _ => ((golRule (n.map (·.map (·.getD 0)))).getD (-999), u)
        match evolve2dFixed hist T rule 1 .moore mode () with
        | .ok (gs, _) => "ok grids=" ++ showHist gs
        | .error e => showErr e
    | _, _, _ => badOp
  | "reversible" => some <|
    match argMat a "hist", argVec a "prev", argNat a "R", argNat a "T" with
    | some hist, some prev, some R, some T =>
      match hist.getLast? with
      | none => "out-of-model"
      | some row =>
        if !(binaryHist hist) || R ≥ 256 || prev.length != row.length || row.length == 0
            || !(hist.all fun x => x.length == row.length) then "out-of-model"
        else match evolveFixed hist T (reversibleRule R) 1 .plain prev with
          | .ok (rows, p) => "ok rows=" ++ showMat rows ++ " prev=" ++ showVec p
          | .error e => showErr e
    | _, _, _, _ => badOp
  | "async1d" => some <|
    match argMat a "hist", argNatVec a "order", argNat a "T", argNat a "r", (arg a "inner").bind parseRule,
        argNat a "randomize" with
    | some hist, some order, some T, some r, some rl, some rnd =>
      if !(inContract1D hist r) || !(ruleOk rl hist r) || order.isEmpty then "out-of-model"
      else
        let sh : List (List Nat) := ((argMat a "shuffles").getD []).map (·.map Int.toNat)
        let st : AsyncSt Nat := { order := order, randomize := rnd != 0, shuffles := sh }
        match evolveFixed hist T (asyncRule1 rl.toRule1) r .plain (st, ({} : St)) with
        | .ok (rows, (ast, ist)) =>
          "ok rows=" ++ showMat rows ++ " calls=" ++ showCalls ist.log ++ " order=" ++ showNatVec ast.order
        | .error e => showErr e
    | _, _, _, _, _, _ => badOp
  | "async2d" => some <|
    match argHist a "hist", (argMat a "order").bind toPairs, argNat a "T", argNat a "r",
        (arg a "inner").bind parseRule, (arg a "nb").bind parseNb, argNat a "randomize" with
    | some hist, some order, some T, some r, some rl, some nb, some rnd =>
      if !(inContract2D hist r) || order.isEmpty then "out-of-model"
      else
        let sh : List (List (Nat × Nat)) := ((argHist a "shuffles").getD []).filterMap toPairs
        let st : AsyncSt (Nat × Nat) := { order := order, randomize := rnd != 0, shuffles := sh }
        match evolve2dFixed hist T (asyncRule2 rl.toRule2) r nb .plain (st, ({} : St2)) with
        | .ok (gs, (_, ist)) => "ok grids=" ++ showHist gs ++ " calls=" ++ showCalls2 ist.log
        | .error e => showErr e
    | _, _, _, _, _, _, _ => badOp
  | "sandpile" => some <|
    match argHist a "hist", argNat a "closed", argNat a "T", (arg a "mode").bind parseMode with
    | some hist, some closed, some T, some mode =>
      match hist.getLast? with
      | none => "out-of-model"
      | some g =>
        if !(inContract2D hist 1) then "out-of-model"
        else
          let gr : List ((Nat × Nat) × Nat) := ((argMat a "grains").getD []).filterMap fun row =>
            match row with
            | [i, j, t] => some ((i.toNat, j.toNat), t.toNat)
            | _ => none
          let cfg : SandpileCfg := { K := Cpl.Gen.sandpileK, rows := g.length, cols := gridCols g, closed := closed != 0, grains := gr }
          match evolve2dFixed hist T (sandpileRule2 cfg) 1 .vonNeumann mode () with
          | .ok (gs, _) => "ok grids=" ++ showHist gs
          | .error e => showErr e
    | _, _, _, _ => badOp
  | "hopfield_train" => some <|
    match argMat a "P" with
    | some P => "ok " ++ showMat (hopfieldTrain P)
    | none => badOp
  | "hopfield" => some <|
    match argMat a "hist", argMat a "P", argNatVec a "order", argNat a "T" with
    | some hist, some P, some order, some T =>
      match hist.getLast? with
      | none => "out-of-model"
      | some row =>
        let N := row.length
        if N % 2 = 0 || N < 3 || order.isEmpty || !(hist.all fun x => x.length == N) || !(P.all fun p => p.length == N)
            || P.isEmpty then "out-of-model"
        else
          let W := hopfieldTrain P
          let st : AsyncSt Nat := { order := order }
          match evolveFixed hist T (asyncRule1 (hopfieldRule1 W (N / 2))) (N / 2) .plain (st, ()) with
          | .ok (rows, _) => "ok rows=" ++ showMat rows
          | .error e => showErr e
    | _, _, _, _ => badOp
  | _ => none

end Cpl.Driver
