import Cpl.PyV
import Cpl.Model.Rules

/-!
# Object state and further operators for translated *methods* (`tools/py2lean.py` → `Cpl/Gen/Objects.lean`)

Methods that read and write `self` attributes are translated to functions `Env → Obj → args → V × Obj`; the
object types (one field per Python attribute the translated methods touch) are declared here by hand, the
attribute ↔ field table lives in the translator. Calls that leave the translated subset become parameters:
`np.random.shuffle(self._update_order)` consumes the next order of an oracle stream, `self._apply_rule(n, c, t)`
and `nks_rule(n, R)` are read from the environment. Core Lean only.
-/

namespace Cpl
namespace V

/-- Python `//` (no exception modelling: a zero divisor yields `err`). -/
def floordiv (a b : V) : V := if b.toInt = 0 then err else int (Py.fdiv a.toInt b.toInt)

/-- Python `%` (sign of the divisor). -/
def mod (a b : V) : V := if b.toInt = 0 then err else int (Int.fmod a.toInt b.toInt)

/-- Python `^` on integers. -/
def xor (a b : V) : V := int (ixor a.toInt b.toInt)

/-- `l[i]` on a Python list / 1-D array of values, negative indices from the end; `err` outside. -/
def listGet (l : List V) (i : V) : V :=
  let n : Int := l.length
  let k : Int := if i.toInt < 0 then i.toInt + n else i.toInt
  if 0 ≤ k ∧ k < n then l.getD k.toNat none else err

/-- `l[i]` on an integer array. -/
def intsGet (l : List Int) (i : V) : V :=
  let n : Int := l.length
  let k : Int := if i.toInt < 0 then i.toInt + n else i.toInt
  if 0 ≤ k ∧ k < n then int (l.getD k.toNat 0) else err

/-- `l[i] = x` on an integer array (in place in Python; a new list here). Out of range: unchanged. -/
def intsSet (l : List Int) (i : V) (x : V) : List Int :=
  let n : Int := l.length
  let k : Int := if i.toInt < 0 then i.toInt + n else i.toInt
  if 0 ≤ k ∧ k < n then l.set k.toNat x.toInt else l

/-- NumPy index resolution: negative indices count from the end; `none` outside `[-n, n)`. -/
def pyIndex (n : Nat) (i : Int) : Option Nat :=
  let k : Int := if i < 0 then i + (n : Int) else i
  if 0 ≤ k ∧ k < (n : Int) then Option.some k.toNat else Option.none

/-- `W[a, b]` on a 2-D integer array. -/
def mat2Get (W : List (List Int)) (a b : V) : V :=
  match pyIndex W.length a.toInt with
  | Option.none => err
  | Option.some i =>
    let row := W.getD i []
    match pyIndex row.length b.toInt with
    | Option.none => err
    | Option.some j => int (row.getD j 0)

/-- `W[a, b] = x` (a new matrix; unchanged when out of range). -/
def mat2Set (W : List (List Int)) (a b : V) (x : V) : List (List Int) :=
  match pyIndex W.length a.toInt with
  | Option.none => W
  | Option.some i =>
    let row := W.getD i []
    match pyIndex row.length b.toInt with
    | Option.none => W
    | Option.some j => W.set i (row.set j x.toInt)

/-- `np.zeros((a, b), dtype=int)`. -/
def zeros2 (a b : V) : List (List Int) := List.replicate a.toInt.toNat (List.replicate b.toInt.toNat 0)

end V

/-- `AsynchronousRule`: the attributes its methods read and write, plus the oracle for `np.random.shuffle`
    (the orders it will produce, in sequence). Cell identities are `V.int i` (1D) or `V.pair i j` (2D). -/
structure AsyncObj where
  order : List V
  curr : Int := 0
  numApplied : Int := 0
  randomize : Bool := false
  shuffles : List (List V) := []
  deriving Repr, DecidableEq

/-- `np.random.shuffle(self._update_order)`: the next order of the oracle stream. -/
def AsyncObj.shuffle (s : AsyncObj) : AsyncObj :=
  match s.shuffles with
  | o :: rest => { s with order := o, shuffles := rest }
  | [] => s

/-- `ReversibleRule`: `_previous_state`, `_rule_number`. -/
structure RevObj where
  prev : List Int
  ruleNumber : Int
  deriving Repr, DecidableEq

/-- `HopfieldNet`: the weight matrix `_W` and the radius `_r`. -/
structure HopObj where
  W : List (List Int) := []
  r : Int := 0
  deriving Repr, DecidableEq

end Cpl
