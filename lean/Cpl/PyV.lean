/-!
# A small dynamic value type for translated Python code (`tools/py2lean.py` → `Cpl/Gen/Rules.lean`)

The translator maps Python function bodies statement by statement onto Lean `Id.run do` blocks (mutable
locals, `if`/`elif`/`else`, `for` over literal lists, early `return`); expressions are evaluated on `V`.
Only what the translated functions use is provided. Core Lean only.
-/

namespace Cpl

inductive V where
  | int (i : Int)
  | bool (b : Bool)
  | none
  | tup (a b c d e : Int)        -- the only tuples the translated code builds: 5-int keys
  | quad (a b c d : Int)         -- (top, right, bottom, left)
  | pair (a b : Int)             -- a cell index (row, col)
  | err                          -- a raised exception (`raise ValueError(...)`)
  deriving DecidableEq, Repr, Inhabited

namespace V

/-- Python truthiness. -/
def truthy : V → Bool
  | int i => i != 0
  | bool b => b
  | none => false
  | _ => true

/-- Numeric value (bools are ints in Python). -/
def toInt : V → Int
  | int i => i
  | bool b => if b then 1 else 0
  | _ => 0

def isNone : V → Bool
  | none => true
  | _ => false

/-- `a == b`. -/
def eq (a b : V) : Bool :=
  match a, b with
  | none, none => true
  | none, _ => false
  | _, none => false
  | tup a b c d e, tup a' b' c' d' e' => a == a' && b == b' && c == c' && d == d' && e == e'
  | quad a b c d, quad a' b' c' d' => a == a' && b == b' && c == c' && d == d'
  | pair a b, pair a' b' => a == a' && b == b'
  | tup .., _ => false
  | _, tup .. => false
  | quad .., _ => false
  | _, quad .. => false
  | pair .., _ => false
  | _, pair .. => false
  | a, b => a.toInt == b.toInt

def ne (a b : V) : Bool := !(eq a b)
def lt (a b : V) : Bool := decide (a.toInt < b.toInt)
def le (a b : V) : Bool := decide (a.toInt ≤ b.toInt)
def gt (a b : V) : Bool := decide (a.toInt > b.toInt)
def ge (a b : V) : Bool := decide (a.toInt ≥ b.toInt)
def add (a b : V) : V := int (a.toInt + b.toInt)
def sub (a b : V) : V := int (a.toInt - b.toInt)
def mul (a b : V) : V := int (a.toInt * b.toInt)

/-- `x in container` for a list literal / a 4-tuple of ints. -/
def mem (x : V) (l : List V) : Bool := l.any (eq x)
def elems : V → List V
  | quad a b c d => [int a, int b, int c, int d]
  | tup a b c d e => [int a, int b, int c, int d, int e]
  | pair a b => [int a, int b]
  | _ => []
def memOf (x : V) (container : V) : Bool := mem x (elems container)

/-- `c[i]` on a pair. -/
def idx (c : V) (i : Nat) : V := (elems c).getD i none

end V
end Cpl
