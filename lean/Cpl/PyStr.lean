import Cpl.PyV
import Cpl.Py

/-!
# Digit strings for translated code (`np.base_repr(x, base=k)`, `.zfill(w)`, `s[i]`, `int(ch, k)`)

A digit string is the list of its digit values, most significant first (`'1A'` in base 16 = `[1, 10]`), as in the
hand model (`Py.baseDigits`, `Py.padLeft`). Core Lean only.
-/

namespace Cpl
namespace V

/-- `np.base_repr(x, base=k)` for `x ≥ 0`: `none` = `ValueError` (NumPy handles bases 2..36 only). -/
def baseRepr (x k : V) : Option (List Nat) :=
  if k.toInt < 2 ∨ 36 < k.toInt then Option.none
  else Option.some (Py.baseDigits k.toInt.toNat x.toInt.toNat)

/-- `s.zfill(w)`. -/
def zfill (s : List Nat) (w : V) : List Nat := Py.padLeft w.toInt.toNat 0 s

/-- `int(s[i], k)`: Python indexing (negative from the end); `err` = `IndexError`. -/
def digitAt (s : List Nat) (i : V) : V :=
  match Py.getIdx s i.toInt with
  | .ok d => int (d : Int)
  | .error _ => err

end V
end Cpl
