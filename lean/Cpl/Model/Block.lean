import Cpl.Py
import Cpl.Model.Evolve2D

/-!
# Model of `evolve_block` (`ca_functions.py:61-108`) and `evolve2d_block` (`ca_functions2d.py:261-315`).
A block rule is `σ → block → t → new block × σ`; state threaded in call order.
-/

namespace Cpl
open Py

abbrev BlockRule1 (σ α : Type) := σ → List α → Nat → List α × σ
abbrev BlockRule2 (σ α : Type) := σ → Grid α → Nat → Grid α × σ

section
variable {σ α : Type}

/-- `[l[i:i+b] for i in range(0, len(l), b)]`. -/
def chunks (b : Nat) (l : List α) : List (List α) :=
  (List.range ((l.length + b - 1) / b)).map fun i => (l.drop (i * b)).take b

/-- `block_indices_odd`. -/
def blockIndicesOdd (N b : Nat) : List (List Nat) := chunks b (List.range N)

/-- `cell_indices = [cell_indices[-1]] + cell_indices[:-1]`, chunked: `block_indices_even`. -/
def blockIndicesEven (N b : Nat) : List (List Nat) :=
  let ci := List.range N
  chunks b ((ci.getLast?.toList) ++ ci.dropLast)

/-- `for i, r in zip(stride, res): arr[i] = r`. -/
def writeZip (arr : List α) : List Nat → List α → List α
  | i :: is, v :: vs => writeZip (arr.set i v) is vs
  | _, _ => arr

/-- One step of `evolve_block`: the `for stride in strides` loop. -/
def blockSweep1 [Inhabited α] (rule : BlockRule1 σ α) (cells : List α) (t : Nat) :
    List (List Nat) → List α → σ → List α × σ
  | [], arr, s => (arr, s)
  | stride :: rest, arr, s =>
    let (res, s1) := rule s (stride.map fun i => cells[i]!) t
    blockSweep1 rule cells t rest (writeZip arr stride res) s1

def blockStep1 [Inhabited α] (rule : BlockRule1 σ α) (b : Nat) (cells : List α) (t : Nat) (s : σ) : List α × σ :=
  let N := cells.length
  let strides := if t % 2 = 0 then blockIndicesEven N b else blockIndicesOdd N b
  blockSweep1 rule cells t strides (List.replicate N default) s

def blockLoop1 [Inhabited α] (rule : BlockRule1 σ α) (b : Nat) :
    (k t : Nat) → List α → σ → List (List α) × σ
  | 0, _, _, s => ([], s)
  | k + 1, t, cells, s =>
    let (row, s1) := blockStep1 rule b cells t s
    let (rows, s2) := blockLoop1 rule b k (t + 1) row s1
    (row :: rows, s2)

/-- `evolve_block`. The divisibility check precedes the buffer allocation. -/
def evolveBlock [Inhabited α] (hist : List (List α)) (b T : Nat) (rule : BlockRule1 σ α) (s : σ) :
    Except Err (List (List α) × σ) :=
  match hist.getLast? with
  | none => .error .IndexError
  | some init =>
    if b = 0 then .error .Exception            -- ZeroDivisionError in Python; outside the contract (b ≥ 1)
    else if init.length % b ≠ 0 then .error .Exception
    else if T = 0 then .error .IndexError
    else
      let (rows, s') := blockLoop1 rule b (T - 1) 1 init s
      .ok (hist ++ rows, s')

/-- 2D `block_indices_odd`: `(range(r, r+b0), range(c, c+b1))` for `r in range(rows)[::b0]`, `c in range(cols)[::b1]`. -/
def blockIndices2Odd (R C b0 b1 : Nat) : List (List Nat × List Nat) :=
  (List.range ((R + b0 - 1) / b0)).flatMap fun i =>
    (List.range ((C + b1 - 1) / b1)).map fun j =>
      ((List.range b0).map (i * b0 + ·), (List.range b1).map (j * b1 + ·))

/-- 2D `block_indices_even`: every index shifted by `+1` modulo the axis length. -/
def blockIndices2Even (R C b0 b1 : Nat) : List (List Nat × List Nat) :=
  (blockIndices2Odd R C b0 b1).map fun (ri, ci) => (ri.map (fun i => (i + 1) % R), ci.map (fun i => (i + 1) % C))

/-- `array[t][np.ix_(rows, cols)] = vals`. -/
def writeIx2 [Inhabited α] (g : Grid α) (ri ci : List Nat) (vals : Grid α) : Grid α :=
  (ri.zipIdx).foldl (fun acc (i, a) =>
    (ci.zipIdx).foldl (fun acc2 (j, b) => setCell acc2 i j ((vals[a]!)[b]!)) acc) g

def blockSweep2 [Inhabited α] (rule : BlockRule2 σ α) (layer : Grid α) (t : Nat) :
    List (List Nat × List Nat) → Grid α → σ → Grid α × σ
  | [], arr, s => (arr, s)
  | (ri, ci) :: rest, arr, s =>
    let n : Grid α := ri.map fun i => ci.map fun j => (layer[i]!)[j]!
    let (res, s1) := rule s n t
    blockSweep2 rule layer t rest (writeIx2 arr ri ci res) s1

def blockStep2 [Inhabited α] (rule : BlockRule2 σ α) (b0 b1 : Nat) (layer : Grid α) (t : Nat) (s : σ) : Grid α × σ :=
  let R := layer.length
  let C := gridCols layer
  let strides := if t % 2 = 0 then blockIndices2Even R C b0 b1 else blockIndices2Odd R C b0 b1
  blockSweep2 rule layer t strides (zeroGrid R C) s

def blockLoop2 [Inhabited α] (rule : BlockRule2 σ α) (b0 b1 : Nat) :
    (k t : Nat) → Grid α → σ → List (Grid α) × σ
  | 0, _, _, s => ([], s)
  | k + 1, t, g, s =>
    let (nx, s1) := blockStep2 rule b0 b1 g t s
    let (rest, s2) := blockLoop2 rule b0 b1 k (t + 1) nx s1
    (nx :: rest, s2)

/-- `evolve2d_block`. Here the buffer is allocated (and `array[0]` assigned) before the divisibility check. -/
def evolve2dBlock [Inhabited α] (hist : List (Grid α)) (b0 b1 T : Nat) (rule : BlockRule2 σ α) (s : σ) :
    Except Err (List (Grid α) × σ) :=
  match hist.getLast? with
  | none => .error .IndexError
  | some init =>
    if T = 0 then .error .IndexError
    else if b0 = 0 ∨ b1 = 0 then .error .Exception     -- ZeroDivisionError in Python; outside the contract
    else if init.length % b0 ≠ 0 ∨ gridCols init % b1 ≠ 0 then .error .Exception
    else
      let (gs, s') := blockLoop2 rule b0 b1 (T - 1) 1 init s
      .ok (hist ++ gs, s')

end
end Cpl
