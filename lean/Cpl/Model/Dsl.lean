import Cpl.Model.Evolve1D
import Cpl.Model.Bits

/-!
# Rule / predicate DSL shared with the Python harness (`harness/dsl.py` is the twin).
Every DSL rule logs `(n, c, t)` of each call in its state, which is how call traces are compared.
-/

namespace Cpl.Dsl
open Cpl

structure St where
  count : Nat := 0
  log : List (List Int × Nat × Nat) := []   -- newest first
  deriving Inhabited

inductive Rule where
  | hash (k : Nat) (a b off : Int)      -- (b + Σ a^i·n_i) mod k + off
  | probe (k : Nat) (a b off : Int)     -- (hash + 7c + 13t) mod k + off
  | counter (k : Nat) (off : Int)       -- (count + centre) mod k + off ; count += 1
  | nks (R : Nat)                       -- elementary / general binary NKS rule (binary cells only)
  | total (k : Nat) (R : Nat)           -- sum-based: digit of R at place k^sum (cells in 0..k-1)
  | half (k : Nat) (a b off : Int) (s2 : Int)
      -- the rule returns hash + 1/2, which is NOT representable in an integer dtype: assignment into the automaton
      -- casts it (NumPy: truncation toward zero). `s2 = 0`: integer dtype; `s2 = scale/2 > 0`: float dtype, where
      -- the value is stored exactly (in scaled units: + s2).
  | shiftc (k : Nat) (off : Int)
      -- ((1 << c) mod 1000003 + centre) mod k + off: exact integer arithmetic on the cell index (in 2D: (1 << row) + (1 << col))
  | pulse (k : Nat) (t0 : Nat) (off : Int)
      -- the cell keeps its state, except at step `t0` where it becomes (centre + 1) mod k + off: a rule that is not a
      -- function of the neighbourhood alone (a scheduled perturbation of a resting state, like Sandpile.add_grain)
  deriving Repr

def polyHash (a b : Int) (n : List Int) : Int :=
  b + (n.zipIdx.foldl (fun acc (x, i) => acc + a ^ i * x) 0)

def centre (n : List Int) : Int := n.getD (n.length / 2) 0

def Rule.eval (rl : Rule) (s : St) (n : List Int) (c t : Nat) : Int × St :=
  let s' : St := { s with log := (n, c, t) :: s.log }
  match rl with
  | .hash k a b off => (polyHash a b n % (k : Int) + off, s')
  | .probe k a b off => ((polyHash a b n + 7 * c + 13 * t) % (k : Int) + off, s')
  | .counter k off => (((s.count : Int) + centre n) % (k : Int) + off, { s' with count := s.count + 1 })
  | .nks R =>
    match nksRule n R with
    | .ok v => (v, s')
    | .error _ => (-1000000, s')          -- unreachable: the driver validates R and the cells first
  | .total k R =>
    let sum := n.foldl (· + ·) 0
    (((R / k ^ sum.toNat) % k : Nat), s')
  | .half k a b off s2 =>
    let h := polyHash a b n % (k : Int) + off
    (if s2 = 0 then (if h ≥ 0 then h else h + 1) else h + s2, s')      -- trunc(h + 1/2) toward zero
  | .pulse k t0 off => (if t = t0 then (centre n + 1) % (k : Int) + off else centre n, s')
  | .shiftc k off => ((((2 ^ c % 1000003 : Nat) : Int) + centre n) % (k : Int) + off, s')

def Rule.toRule1 (rl : Rule) : Rule1 St Int := fun s n c t => rl.eval s n c t

def parseRule (s : String) : Option Rule :=
  match s.splitOn ":" with
  | ["hash", k, a, b, off] => do pure (.hash (← k.toNat?) (← a.toInt?) (← b.toInt?) (← off.toInt?))
  | ["probe", k, a, b, off] => do pure (.probe (← k.toNat?) (← a.toInt?) (← b.toInt?) (← off.toInt?))
  | ["counter", k, off] => do pure (.counter (← k.toNat?) (← off.toInt?))
  | ["nks", r] => do pure (.nks (← r.toNat?))
  | ["total", k, r] => do pure (.total (← k.toNat?) (← r.toNat?))
  | ["half", k, a, b, off, s2] => do pure (.half (← k.toNat?) (← a.toInt?) (← b.toInt?) (← off.toInt?) (← s2.toInt?))
  | ["pulse", k, t0, off] => do pure (.pulse (← k.toNat?) (← t0.toNat?) (← off.toInt?))
  | ["shiftc", k, off] => do pure (.shiftc (← k.toNat?) (← off.toInt?))
  | _ => none

/-- Stopping predicates. -/
inductive Pred where
  | steps (k : Nat)      -- continue while t ≤ k
  | never                -- declines at once
  | fixedpoint           -- until_fixed_point()
  | sumlt (k : Int)      -- continue while sum(last row) < k
  | lenle (k : Nat)      -- continue while len(ca) ≤ k
  deriving Repr

def Pred.eval (p : Pred) (ca : List (List Int)) (t : Nat) : Bool :=
  match p with
  | .steps k => t ≤ k
  | .never => false
  | .fixedpoint => untilFixedPoint ca t
  | .sumlt k => decide ((ca.getLast?.getD []).foldl (· + ·) 0 < k)
  | .lenle k => ca.length ≤ k

def parsePred (s : String) : Option Pred :=
  match s.splitOn ":" with
  | ["steps", k] => do pure (.steps (← k.toNat?))
  | ["never"] => some .never
  | ["fixedpoint"] => some .fixedpoint
  | ["sumlt", k] => do pure (.sumlt (← k.toInt?))
  | ["lenle", k] => do pure (.lenle (← k.toNat?))
  | _ => none

def parseMode (s : String) : Option Mode :=
  match s with
  | "plain" => some .plain
  | "memo" => some .memo
  | "rec" => some .recursive
  | "bad" => some .bad
  | _ => none

end Cpl.Dsl
