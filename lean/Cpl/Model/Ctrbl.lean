import Cpl.Py
import Cpl.Gen.Tables

/-!
# Model of `CTRBLRule` (`ctrbl_rule.py`), `LangtonsLoop`, `SDSRLoop` (`sdsr_loop.py`), `Evoloop` (`evoloop.py`).
The table literals come from `Cpl.Gen.Tables`, regenerated from the source on every run.
A Python dict is modelled as an association list with the *latest* binding first (lookup finds the latest).
-/

namespace Cpl
open Py Cpl.Gen

abbrev Table := List (Key5 × Int)

/-- `r.insert(1, r.pop(4))` on `[c, t, r, b, l]`: a quarter turn, `(c, t, r, b, l) ↦ (c, l, t, r, b)`. -/
def rot (k : Key5) : Key5 := match k with | (c, t, r, b, l) => (c, l, t, r, b)

/-- `_init_rule_table(rule_table, add_rotations)`: entries processed in dict order; each entry writes its own
    key and, if requested, its three further rotations, all with the entry's image. -/
def initTable (entries : List (Key5 × Int)) (addRot : Bool) : Table :=
  entries.foldl (fun tbl (k, img) =>
    let tbl := (k, img) :: tbl
    if addRot then
      let k1 := rot k
      let k2 := rot k1
      let k3 := rot k2
      (k3, img) :: (k2, img) :: (k1, img) :: tbl
    else tbl) []

/-- The key read from a 3×3 neighbourhood: `(n[1][1], n[0][1], n[1][2], n[2][1], n[1][0])`. -/
def keyOf (n : List (List Int)) : Key5 :=
  let at' (i j : Nat) : Int := (n.getD i []).getD j 0
  (at' 1 1, at' 0 1, at' 1 2, at' 2 1, at' 1 0)

/-- `CTRBLRule.__call__`. -/
def ctrblCall (tbl : Table) (k : Key5) : Except Err Int :=
  match tbl.lookup k with
  | some v => .ok v
  | none => .error .ValueError

/-- `LangtonsLoop()`'s table. -/
def langtonTable : Table := initTable langtonEntries langtonAddRotations

def langtonLoop (k : Key5) : Except Err Int := ctrblCall langtonTable k

/-- `SDSRLoop()`'s table: Langton's table, then the extra assignments in source order. -/
def sdsrTable : Table := sdsrExtra.foldl (fun tbl e => e :: tbl) langtonTable

def mem (x : Int) (l : List Int) : Bool := l.contains x

/-- `_is_in_tube`. -/
def inTube (t r b l : Int) : Bool :=
  decide (([t, r, b, l].filter fun site => mem site [1, 2, 4, 6, 7]).length ≥ 2)

/-- The 8-neighbour rules shared by SDSR and Evoloop (`if 8 in trbl: …`), applied on top of `na`. -/
def eightRules (c : Int) (trbl : List Int) (na : Option Int) : Option Int :=
  if mem 8 trbl then
    let na := if c = 0 ∨ c = 1 then
        (if [2, 3, 4, 5, 6, 7].any (fun i => mem i trbl) then some 8
         else if c = 0 then some 0 else some 1)
      else na
    let na := if mem c [2, 3, 5] then some 0 else na
    let na := if mem c [4, 6, 7] then some 1 else na
    na
  else na

/-- The final clean-up: undefined 0 stays 0, undefined 1..7 become 8. -/
def cleanup (c : Int) (na : Option Int) : Option Int :=
  let na := if na.isNone ∧ c = 0 then some 0 else na
  if na.isNone ∧ mem c [1, 2, 3, 4, 5, 6, 7] then some 8 else na

/-- `SDSRLoop.__call__` for a key absent from the table (sequential overrides, as written). `none` = Python `None`. -/
def sdsrDefault (k : Key5) : Option Int :=
  match k with
  | (c, t, r, b, l) =>
    let trbl := [t, r, b, l]
    let tube := inTube t r b l
    let na : Option Int := none
    let na := if c = 0 then (if tube ∧ mem 1 trbl then some 1 else some 0) else na
    let na := if c = 1 ∧ tube then
        (if mem 7 trbl then some 7 else if mem 6 trbl then some 6 else if mem 4 trbl then some 4 else na)
      else na
    let na := if mem c [4, 6, 7] ∧ tube ∧ mem 0 trbl then some 0 else na
    let na := if c = 2 ∧ mem 3 trbl then some 1 else if c = 2 ∧ mem 2 trbl then some 2 else na
    let na := if c = 8 then some 0 else na
    cleanup c (eightRules c trbl na)

def sdsrLoop (k : Key5) : Option Int :=
  match sdsrTable.lookup k with
  | some v => some v
  | none => sdsrDefault k

def evoloopTable : Table := initTable evoloopEntries evoloopAddRotations

/-- `Evoloop.__call__` for a key absent from the table. -/
def evoloopDefault (k : Key5) : Option Int :=
  match k with
  | (c, t, r, b, l) =>
    let trbl := [t, r, b, l]
    let na : Option Int := none
    let na := if c = 8 then some 0 else na
    cleanup c (eightRules c trbl na)

def evoloop (k : Key5) : Option Int :=
  match evoloopTable.lookup k with
  | some v => some v
  | none => evoloopDefault k

end Cpl
