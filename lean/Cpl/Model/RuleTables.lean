import Cpl.Py

/-!
# Model of `rule_tables.py`: `table_rule`, `random_rule_table`, `table_walk_through`.

* neighbourhood strings are digit lists (`np.base_repr(i, k).zfill(n)` as digit values; for `k ≤ 10` this is
  also what `''.join(str(x) …)` produces in `table_rule`);
* a `dict` is an association list in insertion order; assignment to an existing key updates in place;
* every random choice is an oracle: a stream of decisions indexed by the number of choices made so far;
* lambda values are exact rationals `(k^n - #quiescent) / k^n`; the target is `num/den`.
-/

namespace Cpl
open Py

abbrev RTable := List (List Nat × Nat)

def RTable.get (t : RTable) (key : List Nat) : Option Nat := t.lookup key

/-- `table[key] = v` (Python dict assignment: update in place, or append a new key). -/
def RTable.set (t : RTable) (key : List Nat) (v : Nat) : RTable :=
  if t.any (fun e => e.1 == key) then t.map (fun e => if e.1 == key then (e.1, v) else e)
  else t ++ [(key, v)]

/-- `table_rule(neighbourhood, table)`. -/
def tableRule (nb : List Nat) (t : RTable) : Except Err Nat :=
  match t.get nb with
  | some v => .ok v
  | none => .error .ValueError

/-- `[np.base_repr(i, k).zfill(n) for i in range(k**n)]`. -/
def allStates (k n : Nat) : List (List Nat) :=
  (List.range (k ^ n)).map fun i => padLeft n 0 (baseDigits k i)

/-- `len(set(state)) == 1`. -/
def isUniform (s : List Nat) : Bool :=
  match s with
  | [] => false
  | x :: xs => xs.all (· == x)

/-- `[x for x in range(0, k) if x != q]`. -/
def otherStates (k q : Nat) : List Nat := (List.range k).filter (· != q)

/-- One random decision of `random_rule_table`: `none` = `random.random() < 1 - lambda` (quiescent),
    `some i` = `random.choice(other_states)` picked index `i`. -/
abbrev RrtOracle := Nat → Option Nat

structure RrtSt where
  table : RTable := []
  count : Nat := 0        -- quiescent_state_count
  used : Nat := 0         -- random decisions consumed

/-- The body of `for state in states:`. -/
def rrtStep (k q : Nat) (sq iso : Bool) (oracle : RrtOracle) (st : RrtSt) (state : List Nat) : RrtSt :=
  if sq ∧ isUniform state then
    let cell := state.headD 0                 -- int(state[0], k)
    { st with table := st.table.set state cell, count := if cell = q then st.count + 1 else st.count }
  else
    match (if iso then st.table.get state.reverse else none) with
    | some cell =>
      { st with table := st.table.set state cell, count := if cell = q then st.count + 1 else st.count }
    | none =>
      match oracle st.used with
      | none => { table := st.table.set state q, count := st.count + 1, used := st.used + 1 }
      | some i =>
        let others := otherStates k q
        let cell := others.getD (i % others.length) q
        { table := st.table.set state cell, count := st.count, used := st.used + 1 }

/-- `random_rule_table(k, r, lambda_val, quiescent_state, strong_quiescence, isotropic)` with the quiescent
    state given (or already drawn). Returns the table, the quiescent count (reported lambda is
    `(k^n - count) / k^n`), and the number of random decisions consumed. -/
def randomRuleTable (k r q : Nat) (sq iso : Bool) (oracle : RrtOracle) : Except Err RrtSt :=
  if q > k - 1 then .error .ValueError
  else .ok ((allStates k (2 * r + 1)).foldl (rrtStep k q sq iso oracle) {})

/-- Number of entries mapping to the quiescent state: `list(rule_table.values()).count(q)`. -/
def quiescentCount (t : RTable) (q : Nat) : Nat := (t.filter (·.2 == q)).length

/-- One random decision of `table_walk_through`: index into the candidate list, index into `other_states`. -/
abbrev WalkOracle := Nat → Nat × Nat

/-- Compare the table's lambda `(total - cnt)/total` with the target `num/den` (exact rationals). -/
def lamGt (total cnt num den : Nat) : Bool := decide ((total - cnt) * den > num * total)
def lamLt (total cnt num den : Nat) : Bool := decide ((total - cnt) * den < num * total)
def lamEq (total cnt num den : Nat) : Bool := decide ((total - cnt) * den = num * total)

structure WalkSt where
  table : RTable
  used : Nat := 0

/-- The "reduce lambda" loop: `while actual_lambda() > lambda_val and attempts < len(rule_table)`. -/
def walkDown (k n q : Nat) (sq iso : Bool) (num den : Nat) (oracle : WalkOracle) : Nat → WalkSt → WalkSt
  | 0, st => st
  | fuel + 1, st =>
    if lamGt (k ^ n) (quiescentCount st.table q) num den then
      let cands := (st.table.filter (·.2 != q)).map (·.1)
      let cands := if sq then cands.filter (fun s => !isUniform s) else cands
      if cands.isEmpty then st
      else
        let s := cands.getD ((oracle st.used).1 % cands.length) []
        let t1 := st.table.set s q
        let t2 := if iso then t1.set s.reverse q else t1
        walkDown k n q sq iso num den oracle fuel { table := t2, used := st.used + 1 }
    else st

/-- The "increase lambda" loop. -/
def walkUp (k n q : Nat) (sq iso : Bool) (num den : Nat) (oracle : WalkOracle) : Nat → WalkSt → WalkSt
  | 0, st => st
  | fuel + 1, st =>
    if lamLt (k ^ n) (quiescentCount st.table q) num den then
      let cands := (st.table.filter (·.2 == q)).map (·.1)
      let cands := if sq then cands.filter (fun s => !isUniform s) else cands
      if cands.isEmpty then st
      else
        let s := cands.getD ((oracle st.used).1 % cands.length) []
        let others := otherStates k q
        let v := others.getD ((oracle st.used).2 % others.length) q
        let t1 := st.table.set s v
        let t2 := if iso then t1.set s.reverse v else t1
        walkUp k n q sq iso num den oracle fuel { table := t2, used := st.used + 1 }
    else st

/-- `table_walk_through(rule_table, lambda_val = num/den, k, r, q, strong_quiescence, isotropic)`. -/
def tableWalkThrough (t : RTable) (num den k r q : Nat) (sq iso : Bool) (oracle : WalkOracle) : WalkSt :=
  let n := 2 * r + 1
  let total := k ^ n
  let cnt := quiescentCount t q
  if lamEq total cnt num den then { table := t }
  else if lamGt total cnt num den then walkDown k n q sq iso num den oracle t.length { table := t }
  else walkUp k n q sq iso num den oracle t.length { table := t }

end Cpl
