import Cpl.Py

/-!
# Model of `bits_to_int`, `int_to_bits`, `binary_rule`, `nks_rule`, `NKSRule`, `BinaryRule`
(`cellpylib/ca_functions.py:380-470, 585-662`). Mirrors the code statement by statement.
-/

namespace Cpl
open Py

/-- `bits_to_int`: `for shift, j in enumerate(bits[::-1]): if j: total += 1 << shift`. -/
def bitsToIntLoop : List Int → Nat → Nat → Nat
  | [], _, total => total
  | j :: rest, shift, total =>
    bitsToIntLoop rest (shift + 1) (if j ≠ 0 then total + (1 <<< shift) else total)

def bitsToInt (bits : List Int) : Nat := bitsToIntLoop bits.reverse 0 0

/-- `int_to_bits`: `np.pad(list(map(int, bin(num)[2:])), (num_digits - len(converted), 0))`.
    A negative pad width makes `np.pad` raise `ValueError`. -/
def intToBits (num numDigits : Nat) : Except Err (List Int) :=
  let converted : List Int := (binDigits num).map Int.ofNat
  if numDigits < converted.length then .error .ValueError
  else .ok (List.replicate (numDigits - converted.length) 0 ++ converted)

/-- The `rule` argument of `binary_rule`: an int, or a list / ndarray of bits. -/
inductive RuleArg where
  | num (n : Nat)
  | bits (l : List Int)
  deriving Repr

/-- `neighbourhood.dot(powers_of_two)` (integer arithmetic, unbounded). -/
def dot : List Int → List Int → Int
  | a :: as, b :: bs => a * b + dot as bs
  | _, _ => 0

/-- `binary_rule(neighbourhood, rule, scheme, powers_of_two)`; `nks = (scheme == 'nks')`. -/
def binaryRule (nb : List Int) (rule : RuleArg) (nks : Bool) (pow : Option (List Int)) :
    Except Err Int := do
  let stateInt : Int ←
    match pow with
    | none => pure (Int.ofNat (bitsToInt nb))
    | some p => if p.length ≠ nb.length then throw .AssertionError else pure (dot nb p)
  let n : Nat := 2 ^ nb.length
  let ruleBinArray : List Int ←
    match rule with
    | .bits l => if l.length ≠ n then throw .AssertionError else pure l
    | .num r => intToBits r n
  if nks then getIdx ruleBinArray ((n : Int) - 1 - stateInt)
  else getIdx ruleBinArray stateInt

/-- `nks_rule(neighbourhood, rule)`. -/
def nksRule (nb : List Int) (rule : Nat) : Except Err Int := binaryRule nb (.num rule) true none

/-- `NKSRule(rule)(n, c, t)`. -/
def nksRuleClass (rule : Nat) (nb : List Int) (_c _t : Nat) : Except Err Int := nksRule nb rule

/-- `BinaryRule(rule, scheme, powers_of_two)(n, c, t)`. -/
def binaryRuleClass (rule : RuleArg) (nks : Bool) (pow : Option (List Int))
    (nb : List Int) (_c _t : Nat) : Except Err Int := binaryRule nb rule nks pow

end Cpl
