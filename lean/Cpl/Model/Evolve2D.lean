import Cpl.Py
import Cpl.Model.Evolve1D

/-!
# Model of `evolve2d`: `_get_neighbourhood_indices`, `_get_neighbourhood`, the von Neumann mask,
`_evolve2d_fixed`, `_evolve2d_dynamic`, `_get_memoized`, `_get_sub_matrices`, `_step` / `_update_state`,
`_MemoizationCache`  (`cellpylib/ca_functions2d.py:318-778, 858-911`).

* a rule is `σ → List (List (Option α)) → Nat × Nat → Nat → α × σ`; `none` marks a masked cell
  (von Neumann), Moore neighbourhoods are all `some`;
* a block of the quadtree is `(r0, h, c0, w)`: `cell_indices` is always a contiguous sub-rectangle;
* the recursive cache is keyed by the block neighbourhood *with its shape* (a nested list);
* the write-back of a cached / computed block goes to the block's own cells.
-/

namespace Cpl
open Py

abbrev Grid (α : Type) := List (List α)
abbrev Nbhd2 (α : Type) := List (List (Option α))
abbrev Rule2 (σ α : Type) := σ → Nbhd2 α → Nat × Nat → Nat → α × σ

/-- The `neighbourhood` argument after interpretation. -/
inductive NbType where
  | moore | vonNeumann | unknown
  deriving Repr, DecidableEq

section
variable {σ α : Type}

/-- One row of the von Neumann mask: `mask[i][:m] = 1; if m != 0: mask[i][-m:] = 1`, `m = |r - i|`. -/
def vnMaskRow (r i : Nat) : List Bool :=
  let w := 2 * r + 1
  let m := if i ≤ r then r - i else i - r
  (List.range w).map fun j => decide (j < m) || (decide (m ≠ 0) && decide (w - m ≤ j))

/-- `von_neumann_mask` (`true` = masked). -/
def vonNeumannMask (r : Nat) : List (List Bool) := (List.range (2 * r + 1)).map (vnMaskRow r)

/-- `[i - n if i > n - 1 else i for i in range(start - r, start + len + r)]`:
    the high side wraps by subtraction, the low side stays negative (NumPy negative indexing). -/
def axisIdx (n : Nat) (start len r : Nat) : List Int :=
  (List.range (len + 2 * r)).map fun (k : Nat) =>
    let i : Int := (start : Int) - (r : Int) + (k : Int)
    if i > (n : Int) - 1 then i - n else i

/-- `grid[np.ix_(rowIdx, colIdx)]` with NumPy resolution of negative indices. -/
def ix2 [Inhabited α] (g : Grid α) (rowIdx colIdx : List Int) : Grid α :=
  let R := g.length
  rowIdx.map fun i =>
    let row := g[resolve R i]!
    colIdx.map fun j => row[resolve row.length j]!

def gridCols (g : Grid α) : Nat := (g.head?.map List.length).getD 0

/-- The `(2r+1)×(2r+1)` block around `(row, col)` (both axes wrapping). -/
def blockAt [Inhabited α] (g : Grid α) (r row col : Nat) : Grid α :=
  ix2 g (axisIdx g.length row 1 r) (axisIdx (gridCols g) col 1 r)

/-- `np.ma.masked_array(n, mask)` / plain `n`. -/
def applyMask (n : Grid α) (mask : Option (List (List Bool))) : Nbhd2 α :=
  match mask with
  | none => n.map (·.map some)
  | some m => (n.zip m).map fun (row, mrow) => (row.zip mrow).map fun (x, b) => if b then none else some x

/-- `_get_neighbourhood` for the two known neighbourhood types (`vn = true`: von Neumann). -/
def getNeighbourhood [Inhabited α] (g : Grid α) (r : Nat) (vn : Bool) (row col : Nat) : Nbhd2 α :=
  applyMask (blockAt g r row col) (if vn then some (vonNeumannMask r) else none)

/-- All cells in row-major order. -/
def cellsRowMajor (R C : Nat) : List (Nat × Nat) :=
  (List.range R).flatMap fun i => (List.range C).map fun j => (i, j)

/-- `np.zeros((R, C))`. -/
def zeroGrid [Inhabited α] (R C : Nat) : Grid α := List.replicate R (List.replicate C default)

/-- `next[i][j] = v`. -/
def setCell (g : Grid α) (i j : Nat) (v : α) : Grid α := g.modify i (·.set j v)

/-- Plain row-major sweep: `array[t][row][col] = apply_rule(n, (row, col), t)`. -/
def plainSweep [Inhabited α] (rule : Rule2 σ α) (g : Grid α) (r : Nat) (vn : Bool) (t : Nat) :
    List (Nat × Nat) → Grid α → σ → Grid α × σ
  | [], next, s => (next, s)
  | (i, j) :: rest, next, s =>
    let (v, s1) := rule s (getNeighbourhood g r vn i j) (i, j) t
    plainSweep rule g r vn t rest (setCell next i j v) s1

abbrev MemoTable2 (α : Type) := List (Nbhd2 α × α)

/-- Row-major sweep through `_get_memoized` (key: the neighbourhood bytes, masked cells filled). -/
def memoSweep [DecidableEq α] [Inhabited α] (rule : Rule2 σ α) (g : Grid α) (r : Nat) (vn : Bool) (t : Nat) :
    List (Nat × Nat) → Grid α → MemoTable2 α → σ → Grid α × MemoTable2 α × σ
  | [], next, tbl, s => (next, tbl, s)
  | (i, j) :: rest, next, tbl, s =>
    let n := getNeighbourhood g r vn i j
    match tbl.lookup n with
    | some v => memoSweep rule g r vn t rest (setCell next i j v) tbl s
    | none =>
      let (v, s1) := rule s n (i, j) t
      memoSweep rule g r vn t rest (setCell next i j v) ((n, v) :: tbl) s1

/-- A block of the quadtree: rows `r0 .. r0+h-1`, columns `c0 .. c0+w-1`. -/
structure Blk where
  r0 : Nat
  h : Nat
  c0 : Nat
  w : Nat
  deriving Repr, DecidableEq

/-- `_MemoizationCache`: block neighbourhood (content and shape) ↦ the block's next values. -/
abbrev RecCache2 (α : Type) := List (Grid α × Grid α)

structure RecSt2 (σ α : Type) where
  next : Grid α
  cache : RecCache2 α
  s : σ

/-- The state gathered for a block: `curr_state[np.ix_(neigh_row_indices, neigh_col_indices)]`. -/
def blockKey [Inhabited α] (g : Grid α) (r : Nat) (b : Blk) : Grid α :=
  ix2 g (axisIdx g.length b.r0 b.h r) (axisIdx (gridCols g) b.c0 b.w r)

/-- `next_state[np.ix_(block rows, block cols)] = vals`. -/
def setBlock [Inhabited α] (next : Grid α) (b : Blk) (vals : Grid α) : Grid α :=
  (List.range next.length).map fun i =>
    let row := next[i]!
    if b.r0 ≤ i ∧ i < b.r0 + b.h then
      let vrow := vals[i - b.r0]!
      (List.range row.length).map fun j =>
        if b.c0 ≤ j ∧ j < b.c0 + b.w then vrow[j - b.c0]! else row[j]!
    else row

/-- `next_state[np.ix_(block rows, block cols)]`. -/
def getBlock [Inhabited α] (next : Grid α) (b : Blk) : Grid α :=
  (List.range b.h).map fun i => (List.range b.w).map fun j => (next[b.r0 + i]!)[b.c0 + j]!

/-- `_get_sub_matrices`: NW, NE, SW, SE in the order `_step` visits them; `array_split` gives the first
    part the extra row / column. Empty quadrants are kept here and skipped by `updateRec2`. -/
def quadrants (b : Blk) : List Blk :=
  let h1 := (b.h + 1) / 2
  let w1 := (b.w + 1) / 2
  [ ⟨b.r0, h1, b.c0, w1⟩, ⟨b.r0, h1, b.c0 + w1, b.w - w1⟩,
    ⟨b.r0 + h1, b.h - h1, b.c0, w1⟩, ⟨b.r0 + h1, b.h - h1, b.c0 + w1, b.w - w1⟩ ]

/-- `_update_state` on a block (with `_step` inlined when the block has more than one cell). Fuel-indexed:
    `fuel > b.h + b.w` always suffices (each quadrant has a strictly smaller `h + w`). -/
def updateRec2 [DecidableEq α] [Inhabited α] (rule : Rule2 σ α) (r : Nat) (vn : Bool) (g : Grid α) (t : Nat) :
    Nat → Blk → RecSt2 σ α → RecSt2 σ α
  | 0, _, st => st
  | fuel + 1, b, st =>
    if b.h = 0 ∨ b.w = 0 then st
    else
      let key := blockKey g r b
      match st.cache.lookup key with
      | some vals => { st with next := setBlock st.next b vals }
      | none =>
        let st' : RecSt2 σ α :=
          if b.h > 1 ∨ b.w > 1 then
            (quadrants b).foldl (fun acc q => updateRec2 rule r vn g t fuel q acc) st
          else
            let n := applyMask key (if vn then some (vonNeumannMask r) else none)
            let (v, s1) := rule st.s n (b.r0, b.c0) t
            { st with next := setCell st.next b.r0 b.c0 v, s := s1 }
        { st' with cache := (key, getBlock st'.next b) :: st'.cache }

/-- Top-level `_step(cell_indices, …)`: the whole grid is split without being cached itself. -/
def stepRec2 [DecidableEq α] [Inhabited α] (rule : Rule2 σ α) (r : Nat) (vn : Bool) (g : Grid α) (t : Nat)
    (cache : RecCache2 α) (s : σ) : RecSt2 σ α :=
  let R := g.length
  let C := gridCols g
  let st0 : RecSt2 σ α := { next := zeroGrid R C, cache := cache, s := s }
  (quadrants ⟨0, R, 0, C⟩).foldl (fun acc q => updateRec2 rule r vn g t (R + C + 1) q acc) st0

structure Caches2 (α : Type) where
  tbl : MemoTable2 α
  rc : RecCache2 α

def Caches2.empty : Caches2 α := ⟨[], []⟩

/-- One time step (known neighbourhood type; `Mode.bad` is rejected by the callers). -/
def step2 [DecidableEq α] [Inhabited α] (mode : Mode) (rule : Rule2 σ α) (r : Nat) (vn : Bool) (g : Grid α)
    (t : Nat) (cs : Caches2 α) (s : σ) : Grid α × Caches2 α × σ :=
  let R := g.length
  let C := gridCols g
  match mode with
  | .recursive =>
    let st := stepRec2 rule r vn g t cs.rc s
    (st.next, { cs with rc := st.cache }, st.s)
  | .memo =>
    let (nx, tbl, s1) := memoSweep rule g r vn t (cellsRowMajor R C) (zeroGrid R C) cs.tbl s
    (nx, { cs with tbl := tbl }, s1)
  | _ =>
    let (nx, s1) := plainSweep rule g r vn t (cellsRowMajor R C) (zeroGrid R C) s
    (nx, cs, s1)

def fixedLoop2 [DecidableEq α] [Inhabited α] (mode : Mode) (rule : Rule2 σ α) (r : Nat) (vn : Bool) :
    (k : Nat) → (t : Nat) → Grid α → Caches2 α → σ → List (Grid α) × Caches2 α × σ
  | 0, _, _, cs, s => ([], cs, s)
  | k + 1, t, g, cs, s =>
    let (nx, cs1, s1) := step2 mode rule r vn g t cs s
    let (rest, cs2, s2) := fixedLoop2 mode rule r vn k (t + 1) nx cs1 s1
    (nx :: rest, cs2, s2)

/-- `_evolve2d_fixed`. An unknown neighbourhood type surfaces as `ValueError` at the first cell of the
    first step (before the memoize option is looked at in the non-recursive path). -/
def evolve2dFixed [DecidableEq α] [Inhabited α] (hist : List (Grid α)) (T : Nat) (rule : Rule2 σ α) (r : Nat)
    (nb : NbType) (mode : Mode) (s : σ) : Except Err (List (Grid α) × σ) :=
  match hist.getLast? with
  | none => .error .IndexError
  | some init =>
    if T = 0 then .error .IndexError
    else if T ≥ 2 ∧ nb = .unknown then .error .ValueError
    else if T ≥ 2 ∧ mode = .bad then .error .Exception
    else
      let (gs, _, s') := fixedLoop2 mode rule r (decide (nb = .vonNeumann)) (T - 1) 1 init Caches2.empty s
      .ok (hist ++ gs, s')

def dynLoop2 [DecidableEq α] [Inhabited α] (mode : Mode) (rule : Rule2 σ α) (r : Nat) (nb : NbType)
    (pred : List (Grid α) → Nat → Bool) :
    (fuel : Nat) → (t : Nat) → (acc : List (Grid α)) → Grid α → Caches2 α → σ →
      Option (Except Err (List (Grid α) × σ))
  | 0, _, _, _, _, _ => none
  | fuel + 1, t, acc, g, cs, s =>
    if pred acc t then
      if nb = .unknown then some (.error .ValueError)
      else if mode = .bad then some (.error .Exception)
      else
        let (nx, cs1, s1) := step2 mode rule r (decide (nb = .vonNeumann)) g t cs s
        dynLoop2 mode rule r nb pred fuel (t + 1) (acc ++ [nx]) nx cs1 s1
    else some (.ok (acc, s))

/-- `_evolve2d_dynamic`. -/
def evolve2dDynamic [DecidableEq α] [Inhabited α] (fuel : Nat) (hist : List (Grid α))
    (pred : List (Grid α) → Nat → Bool) (rule : Rule2 σ α) (r : Nat) (nb : NbType) (mode : Mode) (s : σ) :
    Option (Except Err (List (Grid α) × σ)) :=
  match hist.getLast? with
  | none => some (.error .IndexError)
  | some init =>
    match dynLoop2 mode rule r nb pred fuel 1 [init] init Caches2.empty s with
    | none => none
    | some (.error e) => some (.error e)
    | some (.ok (acc, s')) => some (.ok (hist ++ acc.drop 1, s'))

def untilFixedPoint2 [DecidableEq α] (ca : List (Grid α)) (_t : Nat) : Bool :=
  if ca.length > 1 then !(decide (ca[ca.length - 2]? = ca[ca.length - 1]?)) else true

end
end Cpl
