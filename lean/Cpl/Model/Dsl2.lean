import Cpl.Model.Dsl
import Cpl.Model.Evolve2D

/-!
# 2D part of the rule / predicate DSL (twin: `harness/dsl.py`).
Hash rules read the unmasked cells in row-major order; `probe` uses the cell code `31·row + col`.
-/

namespace Cpl.Dsl
open Cpl

structure St2 where
  count : Nat := 0
  log : List (Nbhd2 Int × (Nat × Nat) × Nat) := []   -- newest first
  deriving Inhabited

def unmasked (n : Nbhd2 Int) : List Int := n.flatten.filterMap id

def centre2 (n : Nbhd2 Int) : Int :=
  ((n.getD (n.length / 2) []).getD ((n.head?.map List.length).getD 0 / 2) none).getD 0

/-- Game of Life on the model side of the DSL is provided by `Cpl.Model.Rules2D`; here only the generic rules. -/
def Rule.eval2 (rl : Rule) (s : St2) (n : Nbhd2 Int) (c : Nat × Nat) (t : Nat) : Int × St2 :=
  let s' : St2 := { s with log := (n, c, t) :: s.log }
  let vals := unmasked n
  match rl with
  | .hash k a b off => (polyHash a b vals % (k : Int) + off, s')
  | .probe k a b off => ((polyHash a b vals + 7 * ((31 * c.1 + c.2 : Nat) : Int) + 13 * t) % (k : Int) + off, s')
  | .counter k off => (((s.count : Int) + centre2 n) % (k : Int) + off, { s' with count := s.count + 1 })
  | .nks _ => (-1000000, s')
  | .total k R =>
    let sum := vals.foldl (· + ·) 0
    (((R / k ^ sum.toNat) % k : Nat), s')
  | .half k a b off s2 =>
    let h := polyHash a b vals % (k : Int) + off
    (if s2 = 0 then (if h ≥ 0 then h else h + 1) else h + s2, s')
  | .pulse k t0 off => (if t = t0 then (centre2 n + 1) % (k : Int) + off else centre2 n, s')
  | .shiftc k off => (((((2 ^ c.1 + 2 ^ c.2) % 1000003 : Nat) : Int) + centre2 n) % (k : Int) + off, s')

def Rule.toRule2 (rl : Rule) : Rule2 St2 Int := fun s n c t => rl.eval2 s n c t

/-- Stopping predicates on grid histories. -/
def Pred.eval2 (p : Pred) (ca : List (Grid Int)) (t : Nat) : Bool :=
  match p with
  | .steps k => t ≤ k
  | .never => false
  | .fixedpoint => untilFixedPoint2 ca t
  | .sumlt k => decide (((ca.getLast?.getD []).flatten).foldl (· + ·) 0 < k)
  | .lenle k => ca.length ≤ k

def parseNb (s : String) : Option NbType :=
  match s with
  | "moore" => some .moore
  | "vn" => some .vonNeumann
  | "unknown" => some .unknown
  | _ => none

end Cpl.Dsl
