import Cpl.Model.Block

/-! # Block-rule DSL (twin: `harness/dslblock.py`). Every rule logs `(block, t)`. -/

namespace Cpl.DslBlock
open Cpl

structure St where
  count : Nat := 0
  log : List (List Int × Nat) := []     -- flattened block, t ; newest first
  deriving Inhabited

inductive BRule where
  | rev                 -- reverse the (flattened) block
  | rot                 -- rotate the flattened block left by one
  | swapif              -- reverse on odd t, identity on even t
  | sumrot              -- rotate left by (sum of block) mod len   (content-driven permutation)
  | probe (k : Nat)     -- cell i ↦ (x + t + i) mod k              (not conserving)
  | counter (k : Nat)   -- cell i ↦ (x + count) mod k ; count += 1 (stateful)
  | short               -- returns the block without its last element (zip stops early; 1D only)
  deriving Repr

def rotl (l : List Int) (k : Nat) : List Int :=
  if l.isEmpty then l else l.drop (k % l.length) ++ l.take (k % l.length)

def BRule.evalFlat (rl : BRule) (s : St) (blk : List Int) (t : Nat) : List Int × St :=
  let s' : St := { s with log := (blk, t) :: s.log }
  match rl with
  | .rev => (blk.reverse, s')
  | .rot => (rotl blk 1, s')
  | .swapif => (if t % 2 = 1 then blk.reverse else blk, s')
  | .sumrot => (rotl blk ((blk.foldl (· + ·) 0) % (blk.length : Int)).toNat, s')
  | .probe k => (blk.zipIdx.map (fun (x, i) => (x + t + i) % (k : Int)), s')
  | .counter k => (blk.map (fun x => (x + s.count) % (k : Int)), { s' with count := s.count + 1 })
  | .short => (blk.dropLast, s')

def BRule.toRule1 (rl : BRule) : BlockRule1 St Int := fun s blk t => rl.evalFlat s blk t

def unflatten (w : Nat) (l : List Int) : Grid Int :=
  if w = 0 then [] else (List.range (l.length / w)).map fun i => (l.drop (i * w)).take w

def BRule.toRule2 (rl : BRule) : BlockRule2 St Int := fun s g t =>
  let w := gridCols g
  let (out, s') := rl.evalFlat s g.flatten t
  (unflatten w out, s')

def parseBRule (s : String) : Option BRule :=
  match s.splitOn ":" with
  | ["rev"] => some .rev
  | ["rot"] => some .rot
  | ["swapif"] => some .swapif
  | ["sumrot"] => some .sumrot
  | ["probe", k] => do pure (.probe (← k.toNat?))
  | ["counter", k] => do pure (.counter (← k.toNat?))
  | ["short"] => some .short
  | _ => none

end Cpl.DslBlock
