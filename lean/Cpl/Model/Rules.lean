import Cpl.Py
import Cpl.Model.Bits
import Cpl.Model.Evolve1D
import Cpl.Model.Evolve2D

/-!
# Models of the library's rules

* `totalistic_rule` / `TotalisticRule`      (`ca_functions.py:473-496, 665-695`)
* `game_of_life_rule`                        (`ca_functions2d.py:830-855`)
* `ReversibleRule`                           (`ca_functions.py:698-729`)
* `AsynchronousRule`                         (`ca_functions.py:732-825`)
* `Sandpile`                                 (`sandpile.py`)
* `HopfieldNet`                              (`hopfield_net.py`)

Each mirrors the Python statement by statement; object fields become an explicit rule state.
-/

namespace Cpl
open Py

/-! ## totalistic_rule -/

/-- `totalistic_rule(neighbourhood, k, rule)` with `size = neighbourhood.size` (masked cells included)
    and `sum = np.sum(neighbourhood)` (masked cells excluded). -/
def totalisticRule (size : Nat) (sum : Int) (k rule : Nat) : Except Err Nat :=
  if k < 2 ∨ 36 < k then .error .ValueError           -- np.base_repr: bases 2..36 only
  else
    let w := size * (k - 1) + 1
    let ruleString := padLeft w 0 (baseDigits k rule)   -- base_repr(...).zfill(w), as digit values
    if ruleString.length > w then .error .ValueError
    else getIdx ruleString ((size * (k - 1) : Nat) - sum)   -- int(rule_string[n(k-1) - sum], k)

/-- Size and unmasked sum of a (possibly masked) neighbourhood. -/
def nbSize (n : Nbhd2 Int) : Nat := (n.map List.length).foldl (· + ·) 0
def nbSum (n : Nbhd2 Int) : Int := (n.flatten.filterMap id).foldl (· + ·) 0

def totalisticRuleOn (n : Nbhd2 Int) (k rule : Nat) : Except Err Nat := totalisticRule (nbSize n) (nbSum n) k rule

/-- `TotalisticRule(k, rule)(n, c, t)`. -/
def totalisticRuleClass (k rule : Nat) (n : Nbhd2 Int) (_c : Nat × Nat) (_t : Nat) : Except Err Nat :=
  totalisticRuleOn n k rule

/-! ## game_of_life_rule -/

/-- `game_of_life_rule(neighbourhood, c, t)` on a 3×3 integer neighbourhood; `none` = the Python function
    falls off its end (returns `None`). -/
def golRule (n : Grid Int) : Option Int :=
  let center := (n.getD 1 []).getD 1 0
  let total := n.flatten.foldl (· + ·) 0
  if center = 1 then
    if total - 1 < 2 then some 0
    else if total - 1 = 2 ∨ total - 1 = 3 then some 1
    else if total - 1 > 3 then some 0
    else none
  else
    if total = 3 then some 1 else some 0

/-! ## ReversibleRule -/

/-- Python's `^` on (arbitrary-sign) integers, two's-complement semantics. -/
def ixor (a b : Int) : Int :=
  match decide (a < 0), decide (b < 0) with
  | false, false => Int.ofNat (a.toNat ^^^ b.toNat)
  | true, false => -(Int.ofNat ((-a - 1).toNat ^^^ b.toNat)) - 1
  | false, true => -(Int.ofNat (a.toNat ^^^ (-b - 1).toNat)) - 1
  | true, true => Int.ofNat ((-a - 1).toNat ^^^ (-b - 1).toNat)

/-- State of `ReversibleRule`: `_previous_state`. -/
abbrev RevSt := List Int

/-- `ReversibleRule(init_state, R).__call__(n, c, t)`;
    `regular ^ prev[c]`, then `prev[c] = n[len(n)//2]`. The inner NKS rule may raise. -/
def reversibleCall (R : Nat) (prev : RevSt) (n : List Int) (c : Nat) : Except Err (Int × RevSt) := do
  let regular ← nksRule n R
  let p ← getIdx prev c
  let centre ← getIdx n ((n.length / 2 : Nat) : Int)
  pure (ixor regular p, prev.set c centre)

/-- As a total `Rule1` for inputs inside the contract (binary cells, `R < 2^(2^(2r+1))`, `prev` as long as the ring). -/
def reversibleRule (R : Nat) : Rule1 RevSt Int := fun prev n c _t =>
  match reversibleCall R prev n c with
  | .ok (v, p) => (v, p)
  | .error _ => (0, prev)

/-! ## AsynchronousRule -/

/-- Fields of `AsynchronousRule` (`κ` = cell identity: `Nat` in 1D, `Nat × Nat` in 2D) plus the
    oracle for `np.random.shuffle`: the orders it will produce, in sequence. -/
structure AsyncSt (κ : Type) where
  order : List κ
  curr : Nat := 0
  numApplied : Nat := 0
  randomize : Bool := false
  shuffles : List (List κ) := []

/-- `_check_for_end_of_cycle`. -/
def AsyncSt.checkEnd {κ : Type} (st : AsyncSt κ) : AsyncSt κ :=
  if st.numApplied = st.order.length then
    let st1 := { st with curr := (st.curr + 1) % st.order.length, numApplied := 0 }
    if st.randomize then
      match st1.shuffles with
      | o :: rest => { st1 with order := o, shuffles := rest }
      | [] => st1
    else st1
  else st

/-- The bookkeeping part of `__call__`: returns whether the wrapped rule is to be applied to `c`. -/
def AsyncSt.call {κ : Type} [DecidableEq κ] (st : AsyncSt κ) (c : κ) : Bool × AsyncSt κ :=
  let st1 := if c ∈ st.order then { st with numApplied := st.numApplied + 1 } else st
  let should := decide (st1.order[st1.curr]? = some c)
  (should, st1.checkEnd)

/-- 1D: `AsynchronousRule(inner, update_order=…)` as a rule; the wrapped rule keeps its own state. -/
def asyncRule1 {σ α : Type} [Inhabited α] (inner : Rule1 σ α) : Rule1 (AsyncSt Nat × σ) α :=
  fun (a, s) n c t =>
    let (ap, a') := a.call c
    if ap then
      let (v, s') := inner s n c t
      (v, (a', s'))
    else (n[n.length / 2]!, (a', s))

/-- 2D: the current cell value is `n[shape[0]//2][shape[1]//2]` (never masked). -/
def asyncRule2 {σ α : Type} [Inhabited α] (inner : Rule2 σ α) : Rule2 (AsyncSt (Nat × Nat) × σ) α :=
  fun (a, s) n c t =>
    let (ap, a') := a.call c
    if ap then
      let (v, s') := inner s n c t
      (v, (a', s'))
    else
      let row := n[n.length / 2]!
      ((row[row.length / 2]!).getD default, (a', s))

/-- `_init_update_order(num_cells)` before shuffling: `np.arange(n)` / `[(i, j) for i … for j …]`. -/
def initOrder1 (n : Nat) : List Nat := List.range n
def initOrder2 (R C : Nat) : List (Nat × Nat) := cellsRowMajor R C

/-! ## Sandpile -/

structure SandpileCfg where
  K : Nat := 4
  rows : Nat
  cols : Nat
  closed : Bool := true
  grains : List ((Nat × Nat) × Nat) := []      -- (cell_index, timestep), in insertion order

/-- `Sandpile.__call__(n, c, t)` on a von Neumann `r = 1` neighbourhood (`n[0][1]` etc. are unmasked). -/
def sandpileRule (cfg : SandpileCfg) (n : Nbhd2 Int) (c : Nat × Nat) (t : Nat) : Int :=
  let at' (i j : Nat) : Int := ((n.getD i []).getD j none).getD 0
  if cfg.closed ∧ (c.1 = 0 ∨ c.1 = cfg.rows - 1 ∨ c.2 = 0 ∨ c.2 = cfg.cols - 1) then 0
  else if cfg.grains.any (fun g => g.2 = t ∧ g.1 = c) then at' 1 1 + 1
  else
    let current := at' 1 1
    let nbrs := [at' 0 1, at' 1 0, at' 1 2, at' 2 1]
    let gained := nbrs.foldl (fun acc a => if a ≥ (cfg.K : Int) then acc + 1 else acc) current
    if current ≥ (cfg.K : Int) then gained - cfg.K else gained

def sandpileRule2 (cfg : SandpileCfg) : Rule2 Unit Int := fun u n c t => (sandpileRule cfg n c t, u)

/-! ## HopfieldNet -/

/-- `train(P)`: `W[i, j] += p[i] * p[j]` for `i ≠ j`, diagonal forced to 0 (size taken from `P[0]`). -/
def hopfieldTrain (P : List (List Int)) : List (List Int) :=
  let n := (P.head?.map List.length).getD 0
  (List.range n).map fun i => (List.range n).map fun j =>
    if i = j then 0 else P.foldl (fun acc p => acc + p.getD i 0 * p.getD j 0) 0

/-- `_rule(n, c, t)`: weighted input from the left and right halves of the window
    (`W[c - r + j, c]` with NumPy negative indexing, `W[(c + j + 1) % len(n), c]`). -/
def hopfieldRule (W : List (List Int)) (r : Nat) (n : List Int) (c : Nat) : Int :=
  let N := W.length
  let left := n.take (n.length / 2)
  let right := n.drop (n.length / 2 + 1)
  let wAt (i : Nat) : Int := (W.getD i []).getD c 0
  let vL : Int := left.zipIdx.foldl (fun acc (x, j) => acc + wAt (resolve N ((c : Int) - (r : Int) + (j : Int))) * x) 0
  let vR : Int := right.zipIdx.foldl (fun acc (x, j) => acc + wAt ((c + j + 1) % n.length) * x) 0
  if vL + vR ≥ 0 then 1 else -1

def hopfieldRule1 (W : List (List Int)) (r : Nat) : Rule1 Unit Int := fun u n c _t => (hopfieldRule W r n c, u)

end Cpl
