import Cpl.Py

/-!
# Model of the complexity measures: `entropy.py`, `bien.py`, `apen.py`.

The combinatorial part (symbol counts, joint counts, derivatives, windows, match counts, argument checks)
is exact. The numeric part is written once, generically over a record of arithmetic operations `Num F`,
and instantiated with `Float` in the driver and with `ℝ` in the theorems (`Cpl/Properties/C16|C18|C19`):
the formulas the theorems talk about are literally the ones the driver evaluates.
-/

namespace Cpl
open Py

/-- The arithmetic the measures need. -/
structure Num (F : Type) where
  ofNat : Nat → F
  add : F → F → F
  sub : F → F → F
  mul : F → F → F
  div : F → F → F
  neg : F → F
  abs : F → F
  ln : F → F            -- natural logarithm

def floatNum : Num Float where
  ofNat := fun n => Float.ofNat n
  add := (· + ·)
  sub := (· - ·)
  mul := (· * ·)
  div := (· / ·)
  neg := fun x => -x
  abs := Float.abs
  ln := Float.log

section
variable {F : Type} (N : Num F)

def Num.sum (l : List F) : F := l.foldl N.add (N.ofNat 0)
/-- `math.log(x, 2.0)` = `log(x) / log(2.0)`. -/
def Num.log2 (x : F) : F := N.div (N.ln x) (N.ln (N.ofNat 2))

/-! ## entropy.py -/

/-- `dict.fromkeys(list(string))`: distinct symbols in first-occurrence order. -/
def distinctSyms : List Int → List Int
  | [] => []
  | x :: xs => x :: (distinctSyms xs).filter (· != x)

/-- `[string.count(symbol) for symbol in symbols]`. -/
def symCounts (xs : List Int) : List (Int × Nat) := (distinctSyms xs).map fun s => (s, xs.count s)

/-- `shannon_entropy(string)`: `-sum(p * log2 p) + 0`. -/
def shannon (xs : List Int) : F :=
  let n := N.ofNat xs.length
  let terms := (symCounts xs).map fun (_, c) => let p := N.div (N.ofNat c) n; N.mul p (N.log2 p)
  N.add (N.neg (N.sum terms)) (N.ofNat 0)

/-- Joint counts over `set(X) × set(Y)` of aligned pairs (pairs that never occur have count 0 and are dropped by
    the `if p != 0` filter). -/
def jointCounts (xs ys : List Int) : List ((Int × Int) × Nat) :=
  let pairs := xs.zip ys
  (distinctSyms xs).flatMap fun x => (distinctSyms ys).filterMap fun y =>
    let c := pairs.count (x, y)
    if c = 0 then none else some ((x, y), c)

/-- `joint_shannon_entropy(X, Y)` for sequences of equal length: `sum(-p * log2 p)` over non-zero joint frequencies. -/
def jointShannon (xs ys : List Int) : F :=
  let n := N.ofNat xs.length
  N.sum ((jointCounts xs ys).map fun (_, c) => let p := N.div (N.ofNat c) n; N.mul (N.neg p) (N.log2 p))

/-- `mutual_information(X, Y)`. -/
def mutualInformation (xs ys : List Int) : F :=
  N.sub (N.add (shannon N xs) (shannon N ys)) (jointShannon N xs ys)

/-- Column `i` of a `T × N` automaton: the cell's time series of states (states as symbols). -/
def column (ca : List (List Int)) (i : Nat) : List Int := ca.map fun row => row.getD i 0

def numCols (ca : List (List Int)) : Nat := (ca.head?.map List.length).getD 0

/-- `np.mean(values)`. -/
def Num.mean (l : List F) : F := N.div (N.sum l) (N.ofNat l.length)

/-- `average_cell_entropy(ca)`. -/
def averageCellEntropy (ca : List (List Int)) : F :=
  N.mean ((List.range (numCols ca)).map fun i => shannon N (column ca i))

/-- `average_mutual_information(ca, d)`: accepted exactly for `0 < d < number of timesteps`. -/
def averageMutualInformation (ca : List (List Int)) (d : Int) : Except Err F :=
  if ¬ (0 < d ∧ d < (ca.length : Int)) then .error .ValueError
  else
    let dn := d.toNat
    .ok (N.mean ((List.range (numCols ca)).map fun i =>
      let s := column ca i
      mutualInformation N (s.take (s.length - dn)) (s.drop dn)))

/-! ## bien.py -/

def bxor (a b : Int) : Int := if a = b then 0 else if (a = 0 ∨ a = 1) ∧ (b = 0 ∨ b = 1) then 1 else -1

/-- `binary_derivative(string)`: XOR of adjacent digits, length `n - 1`. -/
def binaryDerivative : List Int → List Int
  | a :: b :: rest => bxor a b :: binaryDerivative (b :: rest)
  | _ => []

/-- `cyclic_binary_derivative(string)`: also pairs the last digit with the first, length `n`. -/
def cyclicBinaryDerivative (s : List Int) : List Int :=
  match s with
  | [] => []
  | a :: _ => binaryDerivative (s ++ [a])

/-- `bien(string)`: weights `2^k`, `k = 0 .. n-2`, normalised by `2^(n-1) - 1`. -/
def bienLoop (deriv : List Int → List Int) (weight : Nat → F) : Nat → Nat → List Int → F → F → F × F
  | 0, _, _, tot, totw => (tot, totw)
  | steps + 1, k, s, tot, totw =>
    let w := weight k
    bienLoop deriv weight steps (k + 1) (deriv s) (N.add tot (N.mul (shannon N s) w)) (N.add totw w)

def pow2 : Nat → F
  | 0 => N.ofNat 1
  | k + 1 => N.mul (N.ofNat 2) (pow2 k)

def bien (s : List Int) : F :=
  let n := s.length
  let (tot, _) := bienLoop N binaryDerivative (fun k => N.ofNat (2 ^ k)) (n - 1) 0 s (N.ofNat 0) (N.ofNat 0)
  N.mul (N.div (N.ofNat 1) (N.ofNat (2 ^ (n - 1) - 1))) tot

/-- `tbien(string)`: weights `log2(k + 2)`, normalised by their sum. -/
def tbien (s : List Int) : F :=
  let (tot, totw) := bienLoop N binaryDerivative (fun k => N.log2 (N.ofNat (k + 2))) (s.length - 1) 0 s (N.ofNat 0) (N.ofNat 0)
  N.mul (N.div (N.ofNat 1) totw) tot

/-- `ktbien(string)`: as `tbien` on cyclic derivatives. -/
def ktbien (s : List Int) : F :=
  let (tot, totw) := bienLoop N cyclicBinaryDerivative (fun k => N.log2 (N.ofNat (k + 2))) (s.length - 1) 0 s (N.ofNat 0) (N.ofNat 0)
  N.mul (N.div (N.ofNat 1) totw) tot

/-! ## apen.py -/

/-- The windows `[U[i .. i+m-1] for i in range(N - m + 1)]`. -/
def windows (u : List Int) (m : Nat) : List (List Int) :=
  (List.range (u.length + 1 - m)).map fun i => (u.drop i).take m

/-- `max(|ua - va|)` over aligned entries (Chebyshev distance). -/
def maxDist (a b : List Int) : Int := ((a.zip b).map fun (x, y) => (x - y).natAbs).foldl max 0

/-- Number of windows within distance `r` of window `xi` (self-match included). -/
def matchCount (ws : List (List Int)) (r : Int) (xi : List Int) : Nat := (ws.filter fun xj => decide (maxDist xi xj ≤ r)).length

/-- `phi(m)`: mean log fraction of windows within tolerance. -/
def phi (u : List Int) (m : Nat) (r : Int) : F :=
  let ws := windows u m
  let cnt := N.ofNat (u.length + 1 - m)
  let cs := ws.map fun xi => N.div (N.ofNat (matchCount ws r xi)) cnt
  N.mul (N.div (N.ofNat 1) cnt) (N.sum (cs.map N.ln))

/-- `apen(seq, m, r)` on the parsed integer sequence. -/
def apen (u : List Int) (m : Nat) (r : Int) : F := N.abs (N.sub (phi N u (m + 1) r) (phi N u m r))

end
end Cpl
