import Cpl.Py

/-!
# Model of `evolve` (1D): `_index_strides`, `_evolve_fixed`, `_evolve_dynamic`, `_get_memoized`,
`_step` / `_update_state`, `until_fixed_point`  (`cellpylib/ca_functions.py:111-377, 548-561`).

Conventions
* a rule is `σ → List α → Nat → Nat → α × σ` (rule state, neighbourhood, cell index, step number);
  the rule state is threaded through the calls *in the order the code makes them*;
* arrays are immutable lists; a function that mutates `next_state` returns the new list;
* `tobytes()` keys are modelled as the list of values (injective for a fixed dtype and length);
* the dtype cast on assignment is the identity here (the harness keeps values representable).
-/

namespace Cpl
open Py

abbrev Rule1 (σ α : Type) := σ → List α → Nat → Nat → α × σ

/-- `memoize` after interpretation of its value: `False`, `True`, `"recursive"`, anything else. -/
inductive Mode where
  | plain | memo | recursive | bad
  deriving Repr, DecidableEq

section
variable {σ α : Type}

/-- `_index_strides(np.arange(N), 2r+1)`: the rows of the strided view over
    `arr[-w//2+1:] ++ arr ++ arr[:w//2]`. -/
def indexStrides (N r : Nat) : List (List Nat) :=
  let arr := List.range N
  let w : Int := 2 * r + 1
  let ext := sliceFrom arr (fdiv (-w) 2 + 1) ++ arr ++ sliceTo arr (fdiv w 2)
  (List.range (ext.length + 1 - (2 * r + 1))).map fun i => (ext.drop i).take (2 * r + 1)

/-- `cells[idx]` for a list of (valid) indices. -/
def gather [Inhabited α] (cells : List α) (idx : List Nat) : List α := idx.map fun i => cells[i]!

/-- `cells[strides]`. -/
def neighbourhoods [Inhabited α] (cells : List α) (r : Nat) : List (List α) :=
  (indexStrides cells.length r).map (gather cells)

/-- `[apply_rule(n, c, t) for c, n in enumerate(neighbourhoods)]`, threading the rule state. -/
def plainLoop (rule : Rule1 σ α) (t : Nat) : List (List α) → Nat → σ → List α × σ
  | [], _, s => ([], s)
  | n :: rest, c, s =>
    let (v, s1) := rule s n c t
    let (vs, s2) := plainLoop rule t rest (c + 1) s1
    (v :: vs, s2)

abbrev MemoTable (α : Type) := List (List α × α)

/-- `_get_memoized`. -/
def getMemoized [DecidableEq α] (rule : Rule1 σ α) (n : List α) (c t : Nat)
    (tbl : MemoTable α) (s : σ) : α × MemoTable α × σ :=
  match tbl.lookup n with
  | some v => (v, tbl, s)
  | none =>
    let (v, s1) := rule s n c t
    (v, (n, v) :: tbl, s1)

/-- `[_get_memoized(n, c, t, …) for c, n in enumerate(neighbourhoods)]`. -/
def memoLoop [DecidableEq α] (rule : Rule1 σ α) (t : Nat) :
    List (List α) → Nat → MemoTable α → σ → List α × MemoTable α × σ
  | [], _, tbl, s => ([], tbl, s)
  | n :: rest, c, tbl, s =>
    let (v, tbl1, s1) := getMemoized rule n c t tbl s
    let (vs, tbl2, s2) := memoLoop rule t rest (c + 1) tbl1 s1
    (v :: vs, tbl2, s2)

/-- `curr.take(range(start, start+len), mode='wrap')`. -/
def wrapTake [Inhabited α] (curr : List α) (start : Int) (len : Nat) : List α :=
  (List.range len).map fun (i : Nat) => curr[wrapIdx curr.length (start + (i : Int))]!

abbrev RecCache (α : Type) := List (List α × List α)

/-- `next_state[lo : lo+len] = vals` (the indices of a block are contiguous). -/
def setMany [Inhabited α] (next : List α) (lo : Nat) (vals : List α) : List α :=
  (List.range next.length).map fun i =>
    if lo ≤ i ∧ i < lo + vals.length then vals[i - lo]! else next[i]!

/-- State of the recursive memoiser during one step: `next_state`, the cache, the rule state. -/
structure RecSt (σ α : Type) where
  next : List α
  cache : RecCache α
  s : σ

/-- `_update_state` on the contiguous block `[lo, lo+len)` (with `_step` inlined for `len > 1`:
    split at `len // 2`, left half first). -/
def updateRec [DecidableEq α] [Inhabited α] (rule : Rule1 σ α) (r : Nat) (curr : List α) (t : Nat) :
    (len lo : Nat) → RecSt σ α → RecSt σ α
  | len, lo, st =>
    let key := wrapTake curr ((lo : Int) - r) (len + 2 * r)
    match st.cache.lookup key with
    | some vals => { st with next := setMany st.next lo vals }
    | none =>
      let st' : RecSt σ α :=
        if _h : len > 1 then
          let mid := len / 2
          let s1 := updateRec rule r curr t mid lo st
          updateRec rule r curr t (len - mid) (lo + mid) s1
        else
          let (v, s1) := rule st.s key lo t
          { st with next := setMany st.next lo [v], s := s1 }
      { st' with cache := (key, (List.range len).map fun i => st'.next[lo + i]!) :: st'.cache }
termination_by len => len
decreasing_by all_goals omega

/-- Top-level `_step(cell_indices, …)`: the whole ring is split without being cached itself. -/
def stepRec [DecidableEq α] [Inhabited α] (rule : Rule1 σ α) (r : Nat) (curr : List α) (t : Nat)
    (cache : RecCache α) (s : σ) : RecSt σ α :=
  let N := curr.length
  let zeros : List α := List.replicate N default
  let st0 : RecSt σ α := { next := zeros, cache := cache, s := s }
  let mid := N / 2
  let st1 := if mid > 0 then updateRec rule r curr t mid 0 st0 else st0
  if N - mid > 0 then updateRec rule r curr t (N - mid) mid st1 else st1

/-- The per-call caches (`memo_table` doubles as the recursive cache in 1D). -/
structure Caches (α : Type) where
  tbl : MemoTable α
  rc : RecCache α

def Caches.empty : Caches α := ⟨[], []⟩

/-- One time step in the given mode (`Mode.bad` is rejected by the callers). -/
def step1 [DecidableEq α] [Inhabited α] (mode : Mode) (rule : Rule1 σ α) (r : Nat) (cells : List α)
    (t : Nat) (cs : Caches α) (s : σ) : List α × Caches α × σ :=
  match mode with
  | .recursive =>
    let st := stepRec rule r cells t cs.rc s
    (st.next, { cs with rc := st.cache }, st.s)
  | .memo =>
    let (row, tbl, s1) := memoLoop rule t (neighbourhoods cells r) 0 cs.tbl s
    (row, { cs with tbl := tbl }, s1)
  | _ =>
    let (row, s1) := plainLoop rule t (neighbourhoods cells r) 0 s
    (row, cs, s1)

/-- The `for t in range(1, timesteps)` loop: `k` more steps starting with step number `t`.
    Returns the new rows (oldest first). -/
def fixedLoop [DecidableEq α] [Inhabited α] (mode : Mode) (rule : Rule1 σ α) (r : Nat) :
    (k : Nat) → (t : Nat) → List α → Caches α → σ → List (List α) × Caches α × σ
  | 0, _, _, cs, s => ([], cs, s)
  | k + 1, t, cells, cs, s =>
    let (row, cs1, s1) := step1 mode rule r cells t cs s
    let (rows, cs2, s2) := fixedLoop mode rule r k (t + 1) row cs1 s1
    (row :: rows, cs2, s2)

/-- `_evolve_fixed`: returns `cellular_automaton ++ array[1:]` and the final rule state. -/
def evolveFixed [DecidableEq α] [Inhabited α] (hist : List (List α)) (T : Nat) (rule : Rule1 σ α)
    (r : Nat) (mode : Mode) (s : σ) : Except Err (List (List α) × σ) :=
  match hist.getLast? with
  | none => .error .IndexError                    -- cellular_automaton[-1] on an empty history
  | some init =>
    if T = 0 then .error .IndexError              -- array[0] = … on a (0, N) buffer
    else if T ≥ 2 ∧ mode = .bad then .error .Exception
    else
      let (rows, _, s') := fixedLoop mode rule r (T - 1) 1 init Caches.empty s
      .ok (hist ++ rows, s')

/-- The `while timesteps(np.array(array), t)` loop with fuel. `acc` = rows of this call so far
    (starting state first). Returns the rows of this call, or `none` when the fuel runs out. -/
def dynLoop [DecidableEq α] [Inhabited α] (mode : Mode) (rule : Rule1 σ α) (r : Nat)
    (pred : List (List α) → Nat → Bool) :
    (fuel : Nat) → (t : Nat) → (acc : List (List α)) → List α → Caches α → σ →
      Option (Except Err (List (List α) × σ))
  | 0, _, _, _, _, _ => none
  | fuel + 1, t, acc, cells, cs, s =>
    if pred acc t then
      if mode = .bad then some (.error .Exception)
      else
        let (row, cs1, s1) := step1 mode rule r cells t cs s
        dynLoop mode rule r pred fuel (t + 1) (acc ++ [row]) row cs1 s1
    else some (.ok (acc, s))

/-- `_evolve_dynamic` (with the zero-step case returning the history unchanged). -/
def evolveDynamic [DecidableEq α] [Inhabited α] (fuel : Nat) (hist : List (List α))
    (pred : List (List α) → Nat → Bool) (rule : Rule1 σ α) (r : Nat) (mode : Mode) (s : σ) :
    Option (Except Err (List (List α) × σ)) :=
  match hist.getLast? with
  | none => some (.error .IndexError)
  | some init =>
    match dynLoop mode rule r pred fuel 1 [init] init Caches.empty s with
    | none => none
    | some (.error e) => some (.error e)
    | some (.ok (acc, s')) => some (.ok (hist ++ acc.drop 1, s'))

/-- `until_fixed_point()`. -/
def untilFixedPoint [DecidableEq α] (ca : List (List α)) (_t : Nat) : Bool :=
  if ca.length > 1 then
    !(decide (ca[ca.length - 2]? = ca[ca.length - 1]?))
  else true

end
end Cpl
