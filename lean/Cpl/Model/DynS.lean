import Cpl.Model.Evolve1D
import Cpl.Model.Evolve2D

/-!
# Callable `timesteps` as an arbitrary (stateful) callable

`_evolve_dynamic` / `_evolve2d_dynamic` call `timesteps(np.array(array), t)` — any Python callable, possibly with
state of its own (a recorder, a counter, …). `dynLoopS` threads a predicate state `π` through the consultations
in the order the code makes them, exactly as the rule state `σ` is threaded through the rule calls.
`Cpl/Properties/C06.lean` proves that for a pure predicate this is `dynLoop`, and that a recording predicate
sees exactly `(states of this call so far, t = their number)` for `t = 1, 2, …, k+1`.
-/

namespace Cpl
open Py

abbrev SPred (π α : Type) := π → List (List α) → Nat → Bool × π
abbrev SPred2 (π α : Type) := π → List (Grid α) → Nat → Bool × π

section
variable {σ π α : Type}

def dynLoopS [DecidableEq α] [Inhabited α] (mode : Mode) (rule : Rule1 σ α) (r : Nat) (pred : SPred π α) :
    (fuel : Nat) → (t : Nat) → (acc : List (List α)) → List α → Caches α → σ → π →
      Option (Except Err (List (List α) × σ × π))
  | 0, _, _, _, _, _, _ => none
  | fuel + 1, t, acc, cells, cs, s, p =>
    let (go, p1) := pred p acc t
    if go then
      if mode = .bad then some (.error .Exception)
      else
        let (row, cs1, s1) := step1 mode rule r cells t cs s
        dynLoopS mode rule r pred fuel (t + 1) (acc ++ [row]) row cs1 s1 p1
    else some (.ok (acc, s, p1))

/-- `_evolve_dynamic` with a stateful `timesteps` callable. -/
def evolveDynamicS [DecidableEq α] [Inhabited α] (fuel : Nat) (hist : List (List α)) (pred : SPred π α)
    (rule : Rule1 σ α) (r : Nat) (mode : Mode) (s : σ) (p : π) :
    Option (Except Err (List (List α) × σ × π)) :=
  match hist.getLast? with
  | none => some (.error .IndexError)
  | some init =>
    match dynLoopS mode rule r pred fuel 1 [init] init Caches.empty s p with
    | none => none
    | some (.error e) => some (.error e)
    | some (.ok (acc, s', p')) => some (.ok (hist ++ acc.drop 1, s', p'))

def dynLoopS2 [DecidableEq α] [Inhabited α] (mode : Mode) (rule : Rule2 σ α) (r : Nat) (nb : NbType)
    (pred : SPred2 π α) :
    (fuel : Nat) → (t : Nat) → (acc : List (Grid α)) → Grid α → Caches2 α → σ → π →
      Option (Except Err (List (Grid α) × σ × π))
  | 0, _, _, _, _, _, _ => none
  | fuel + 1, t, acc, g, cs, s, p =>
    let (go, p1) := pred p acc t
    if go then
      if nb = .unknown then some (.error .ValueError)
      else if mode = .bad then some (.error .Exception)
      else
        let (nx, cs1, s1) := step2 mode rule r (decide (nb = .vonNeumann)) g t cs s
        dynLoopS2 mode rule r nb pred fuel (t + 1) (acc ++ [nx]) nx cs1 s1 p1
    else some (.ok (acc, s, p1))

/-- `_evolve2d_dynamic` with a stateful `timesteps` callable. -/
def evolve2dDynamicS [DecidableEq α] [Inhabited α] (fuel : Nat) (hist : List (Grid α)) (pred : SPred2 π α)
    (rule : Rule2 σ α) (r : Nat) (nb : NbType) (mode : Mode) (s : σ) (p : π) :
    Option (Except Err (List (Grid α) × σ × π)) :=
  match hist.getLast? with
  | none => some (.error .IndexError)
  | some init =>
    match dynLoopS2 mode rule r nb pred fuel 1 [init] init Caches2.empty s p with
    | none => none
    | some (.error e) => some (.error e)
    | some (.ok (acc, s', p')) => some (.ok (hist ++ acc.drop 1, s', p'))

/-- A pure predicate seen as a stateful one. -/
def liftPred (q : List (List α) → Nat → Bool) : SPred π α := fun p rows t => (q rows t, p)
def liftPred2 (q : List (Grid α) → Nat → Bool) : SPred2 π α := fun p gs t => (q gs t, p)

/-- A predicate that records what it is consulted with, in order. -/
def recPred (q : List (List α) → Nat → Bool) : SPred (List (List (List α) × Nat)) α :=
  fun log rows t => (q rows t, log ++ [(rows, t)])
def recPred2 (q : List (Grid α) → Nat → Bool) : SPred2 (List (List (Grid α) × Nat)) α :=
  fun log gs t => (q gs t, log ++ [(gs, t)])

end
end Cpl
