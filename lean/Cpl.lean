-- Root of the `Cpl` library: model, driver ops, and property theorems.
import Cpl.Py
import Cpl.Model.Bits
import Cpl.Driver.Proto
import Cpl.Driver.OpsBits
