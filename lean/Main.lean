import Cpl.Driver.Proto
import Cpl.Driver.OpsBits
import Cpl.Driver.OpsEvolve1D
import Cpl.Driver.OpsEvolve2D
import Cpl.Driver.OpsBlock
import Cpl.Driver.OpsRules
import Cpl.Driver.OpsCtrbl
import Cpl.Driver.OpsRuleTables
import Cpl.Driver.OpsMeasures

open Cpl.Proto Cpl.Driver

def dispatch (line : String) : String :=
  let (op, a) := parseLine line
  let handlers : List (String → Args → Option String) := [opsBits, opsEvolve1D, opsEvolve2D, opsBlock, opsRules, opsCtrbl, opsRuleTables, opsMeasures]
  match handlers.findSome? (fun h => h op a) with
  | some out => out
  | none => badOp

partial def loop (h : IO.FS.Stream) (out : IO.FS.Stream) : IO Unit := do
  let line ← h.getLine
  if line.isEmpty then return ()
  out.putStrLn (dispatch line)
  loop h out

def main : IO Unit := do
  let out ← IO.getStdout
  loop (← IO.getStdin) out
  out.flush
