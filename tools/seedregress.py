#!/usr/bin/env python3
"""Regression over all kept seeds: apply seeded/<id>/patch.diff to /repo (skipped when it no longer applies to the current
HEAD, e.g. after a fix: commit rewrote the same lines), run the property's quick check with the evidence directory
redirected, expect exit 1 with a VIOLATION line, undo. Writes seeded/REGRESSION.json.   tools/seedregress.py [substring ...]"""
import glob
import json
import os
import subprocess
import sys
import time

V = os.path.dirname(os.path.dirname(os.path.abspath(__file__)))


def sh(cmd, cwd=None, env=None, timeout=3600):
    p = subprocess.run(cmd, cwd=cwd, env=env, stdout=subprocess.PIPE, stderr=subprocess.STDOUT, text=True, timeout=timeout)
    return p.returncode, p.stdout


def main():
    args = [a for a in sys.argv[1:] if not a.startswith("--")]
    dirs = sorted(d for d in glob.glob(os.path.join(V, "seeded", "*")) if os.path.isdir(d) and os.path.exists(os.path.join(d, "patch.diff")))
    if args:
        dirs = [d for d in dirs if any(a in os.path.basename(d) for a in args)]
    rc, o = sh(["git", "-C", "/repo", "status", "--porcelain"])
    if o.strip():
        print("refusing: /repo has uncommitted changes")
        sys.exit(2)
    head = sh(["git", "-C", "/repo", "rev-parse", "--short", "HEAD"])[1].strip()
    env = dict(os.environ, VERIF_EVIDENCE_DIR="/tmp/verif_seedregress_evidence")
    res = {}
    missed, skipped = [], []
    for d in dirs:
        name = os.path.basename(d)
        prop = name.split("-")[0]
        rca, oa = sh(["git", "-C", "/repo", "apply", os.path.join(d, "patch.diff")])
        if rca != 0:
            res[name] = dict(status="does-not-apply-to-%s" % head)
            skipped.append(name)
            print("%-8s does not apply to %s" % (name, head))
            continue
        t0 = time.time()
        try:
            rcq, oq = sh([os.path.join(V, "check"), prop, "--tier", "quick"], cwd=V, env=env)
        finally:
            sh(["git", "-C", "/repo", "checkout", "--", "."])
        lines = [l for l in oq.splitlines() if l.startswith(("VIOLATION", prop))]
        det = rcq == 1 and any(l.startswith("VIOLATION") for l in lines)
        nofail = any("no-failing-input-found" in l for l in lines)
        res[name] = dict(status="detected" if det else "MISSED", rc=rcq, with_failing_input=det and not nofail, s=round(time.time() - t0, 1),
                         tail=[l[:200] for l in lines[-2:]])
        print("%-8s %s%s %5.1fs" % (name, "detected" if det else "MISSED", " (no-failing-input-found)" if nofail else "", time.time() - t0))
        if not det:
            missed.append(name)
    json.dump(dict(head=head, results=res), open(os.path.join(V, "seeded", "REGRESSION.json"), "w"), indent=1)
    for tool in ("translate.py", "py2lean.py", "py2lean_typed.py", "py2lean_frag.py", "py2lean_comp.py"):
        sh([sys.executable, os.path.join(V, "tools", tool), "--repo", "/repo", "--out", os.path.join(V, "lean", "Cpl", "Gen")])
    print("detected %d / %d applicable; missed: %s; not applicable to this HEAD: %s" % (
        len(dirs) - len(missed) - len(skipped), len(dirs) - len(skipped), missed, skipped))
    sys.exit(1 if missed else 0)


if __name__ == "__main__":
    try:
        main()
    finally:
        subprocess.run([sys.executable, os.path.join(os.path.dirname(os.path.abspath(__file__)), "retranslate.py")])
