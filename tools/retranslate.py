#!/usr/bin/env python3
"""Regenerate lean/Cpl/Gen/*.lean from /repo's current source (what every check does first). The tools that run the
checks against patched trees (seedtest, seedregress, selftest, benigntest) call this when they are done, so that the
generated files left in the working tree always describe /repo itself."""
import os
import subprocess
import sys

V = os.path.dirname(os.path.dirname(os.path.abspath(__file__)))


def main():
    out = os.path.join(V, "lean", "Cpl", "Gen")
    for tool in ("translate.py", "py2lean.py", "py2lean_typed.py", "py2lean_frag.py", "py2lean_comp.py"):
        subprocess.run([sys.executable, os.path.join(V, "tools", tool), "--repo", "/repo", "--out", out],
                       stdout=subprocess.DEVNULL, stderr=subprocess.DEVNULL)


if __name__ == "__main__":
    main()
