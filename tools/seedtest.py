#!/usr/bin/env python3
"""Validate a seeded property-breaking change and run the checks against it.

  tools/seedtest.py <dir with patch.diff, demo.py, meta.json> [--name <seed id>] [--props C01,C05] [--skip-suite]

1. scratch worktree of /repo HEAD outside /repo and /verif: demo passes on the clean tree, fails with the patch,
   the repository's own test suite gives the baseline result with the patch (161 passed, the 4 known failures);
2. apply the patch to /repo, run ./check <prop> --tier quick (then thorough if quick misses it), undo the patch;
3. store everything under /verif/seeded/<name>/.
Nothing is ever committed to /repo.
"""
import argparse
import json
import os
import shutil
import subprocess
import sys
import time

V = os.path.dirname(os.path.dirname(os.path.abspath(__file__)))
PY = "/venv/bin/python"
KNOWN_FAIL = {"test_dynamic_timesteps", "test_dynamic_timesteps_memoized", "test_dynamic_timesteps_memoized_recursive", "test_prior_history"}


def sh(cmd, cwd=None, timeout=3600, env=None):
    p = subprocess.run(cmd, cwd=cwd, env=env, shell=isinstance(cmd, str), stdout=subprocess.PIPE, stderr=subprocess.STDOUT, text=True, timeout=timeout)
    return p.returncode, p.stdout


def main():
    ap = argparse.ArgumentParser()
    ap.add_argument("src")
    ap.add_argument("--name")
    ap.add_argument("--props")
    ap.add_argument("--skip-suite", action="store_true")
    ap.add_argument("--scratch", action="store_true", help="run the checks with VERIF_REPO=<patched scratch worktree> instead of patching /repo")
    a = ap.parse_args()
    src = os.path.abspath(a.src)
    meta = json.load(open(os.path.join(src, "meta.json")))
    prop = meta["property"]
    name = a.name or prop
    props = a.props.split(",") if a.props else [prop]
    out = os.path.join(V, "seeded", name)
    os.makedirs(out, exist_ok=True)
    prev_suite = None
    try:        # an earlier validation of the very same patch (its test-suite result is reused with --skip-suite)
        if open(os.path.join(out, "patch.diff")).read() == open(os.path.join(src, "patch.diff")).read():
            prev_suite = json.load(open(os.path.join(out, "meta.json")))["validation"].get("suite")
    except Exception:  # noqa
        pass
    for f in ("patch.diff", "demo.py", "meta.json"):
        shutil.copy(os.path.join(src, f), os.path.join(out, f))
    patch = os.path.join(out, "patch.diff")
    log = {"ran": [], "at": time.strftime("%Y-%m-%d %H:%M:%S")}

    # 1. scratch worktree
    wt = "/tmp/sv_%s_%d" % (name, os.getpid())
    rc, o = sh(["git", "-C", "/repo", "worktree", "add", "--detach", wt, "HEAD"])
    try:
        os.makedirs(os.path.join(wt, "_seed"), exist_ok=True)
        shutil.copy(os.path.join(out, "demo.py"), os.path.join(wt, "_seed", "demo.py"))
        rc0, o0 = sh([PY, "-W", "ignore", "_seed/demo.py"], cwd=wt, timeout=600)
        log["demo_clean"] = dict(rc=rc0, tail=o0[-300:])
        rca, oa = sh(["git", "apply", patch], cwd=wt)
        log["apply"] = dict(rc=rca, out=oa[-300:])
        rc1, o1 = sh([PY, "-W", "ignore", "_seed/demo.py"], cwd=wt, timeout=600)
        log["demo_changed"] = dict(rc=rc1, tail=o1[-600:])
        if not a.skip_suite:
            rcs, os_ = sh(PY + " -m pytest -q -p no:cacheprovider --timeout=900 tests 2>&1 | tail -12", cwd=wt, timeout=1800)
            failed = set(l.split("::")[-1].split(" ")[0] for l in os_.splitlines() if l.startswith("FAILED"))
            summary = [l for l in os_.splitlines() if " passed" in l or " failed" in l]
            log["suite"] = dict(summary=summary[-1] if summary else os_[-200:], failed=sorted(failed), baseline_ok=(failed == KNOWN_FAIL and "161 passed" in (summary[-1] if summary else "")))
    finally:
        if not a.scratch:
            sh(["git", "-C", "/repo", "worktree", "remove", "--force", wt])
    if a.skip_suite and prev_suite:
        log["suite"] = dict(prev_suite, reused_from_earlier_validation_of_the_same_patch=True)
    log["valid_seed"] = bool(log["demo_clean"]["rc"] == 0 and log["apply"]["rc"] == 0 and log["demo_changed"]["rc"] != 0
                             and ((a.skip_suite and not prev_suite) or log["suite"]["baseline_ok"]))

    # 2. run the checks against it
    log["checks"] = {}
    log["mode"] = "VERIF_REPO=scratch worktree" if a.scratch else "patch applied to /repo and undone"
    env = dict(os.environ, VERIF_EVIDENCE_DIR="/tmp/verif_seed_evidence")
    if a.scratch:
        env["VERIF_REPO"] = wt
    if not a.scratch:
        rc, o = sh(["git", "-C", "/repo", "status", "--porcelain"])
        if o.strip():
            print("refusing: /repo has uncommitted changes:\n" + o)
            sys.exit(2)
    try:
        rca, oa = (0, "") if a.scratch else sh(["git", "-C", "/repo", "apply", patch])
        if rca != 0:
            print("patch does not apply to /repo:", oa)
        else:
            for p in props:
                t0 = time.time()
                rcq, oq = sh(["./check", p, "--tier", "quick"], cwd=V, timeout=3600, env=env)
                res = dict(quick_rc=rcq, quick_tail=[l for l in oq.splitlines() if l.startswith(("VIOLATION", "KNOWN", p))][-4:], quick_s=round(time.time() - t0, 1))
                if rcq == 0:
                    t0 = time.time()
                    rct, ot = sh(["./check", p, "--tier", "thorough"], cwd=V, timeout=7200, env=env)
                    res.update(thorough_rc=rct, thorough_tail=[l for l in ot.splitlines() if l.startswith(("VIOLATION", "KNOWN", p))][-4:], thorough_s=round(time.time() - t0, 1))
                # keep the replay the check produced (first VIOLATION line)
                for l in oq.splitlines():
                    if l.startswith("VIOLATION"):
                        rp = l.split("replay=")[1].split(" ")[0]
                        try:
                            res["replay"] = json.load(open(os.path.join(V, rp)))
                        except Exception:
                            pass
                        break
                log["checks"][p] = res
    finally:
        if a.scratch:
            sh(["git", "-C", "/repo", "worktree", "remove", "--force", wt])
        else:
            sh(["git", "-C", "/repo", "checkout", "--", "."])
    meta["validation"] = log
    meta["detected_by"] = [p for p, r in log["checks"].items() if r.get("quick_rc") == 1 or r.get("thorough_rc") == 1]
    json.dump(meta, open(os.path.join(out, "meta.json"), "w"), indent=1)
    print(json.dumps({k: v for k, v in log.items() if k != "checks"}, indent=1)[:1500])
    for p, r in log["checks"].items():
        print(p, {k: v for k, v in r.items() if k != "replay"})


if __name__ == "__main__":
    try:
        main()
    finally:
        subprocess.run([sys.executable, os.path.join(os.path.dirname(os.path.abspath(__file__)), "retranslate.py")])
