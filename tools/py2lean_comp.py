#!/usr/bin/env python3
"""Comprehension translator: the countable kernels of `apen` and `shannon_entropy` (run on every check).

`apen.py: apen` is a closure-style function: the nested `maximum_distance` and `phi` read `U`, `N`, `r` from the enclosing
scope, everything countable is written as list comprehensions, and only the last line of `phi` is floating point. This
tool translates the countable part expression by expression (closure-converted: the free variables become parameters)
into Lean terms in the `Option` monad (`none` = the Python code raised: an index out of range, `max([])`), written to
lean/Cpl/Gen/Apen.lean:

  maximumDistance x_i x_j   the body of `maximum_distance`
  phiWindows U m            `N = len(U)` and the right-hand side of `x = ...` in `phi`
  phiCounts x r             the numerators `len([... for x_j in x if maximum_distance(x_i, x_j) <= r])` of `C = [... / D for x_i in x]`
  phiDenoms N m             the two denominators (`D` above and the one of the returned mean), `k.0` float literals read as k
  phiArgs m                 (A, B) of the final `return abs(phi(A) - phi(B))`

`lean/Cpl/Ties/C19.lean` proves them equal to the model's `windows`, `maxDist`, `matchCount`, `N + 1 - m`, `(m + 1, m)`.
What stays outside (modelled, validated through the correspondence): the dispatch on the input form, `np.log`, the float
sum / product / abs of the last lines.

`entropy.py: shannon_entropy` likewise, to lean/Cpl/Gen/Entropy.lean (symbols are integers: the harness's injective coding):

  shannonSymbols string          `symbols = dict.fromkeys(list(string))`
  shannonCounts string symbols   the numerators `float(string.count(symbol))` of `symbol_probabilities`
  shannonDenom string            their denominator `len(string)`

`lean/Cpl/Ties/C16.lean` proves them equal to the model's `distinctSyms`, `symCounts`, `xs.length`. Outside: `math.log`,
the float quotient / sum / negation, and the NumPy-based `joint_shannon_entropy`.

Supported expression language: integer constants (and whole float literals inside a denominator), names, `+ - *`,
`abs(e)`, `len(e)`, `range(a[, b])`, `zip(a, b)`, `U[j]` on an integer list, `max(list)`, calls of an already translated
nested function, `dict.fromkeys(list(s))`, `s.count(x)`, `float(k)`, comparisons, list comprehensions with one generator (a name or a 2-tuple target) and at most one `if`.
Anything else: `untranslated`, the tie does not build.
"""
import argparse
import ast
import os
import sys


class Unsupported(Exception):
    pass


LEAN_TY = {"int": "Int", "ints": "List Int", "ints2": "List (List Int)", "bool": "Bool", "intpairs": "List (Int × Int)"}
ELT = {"ints": "int", "ints2": "ints", "intpairs": "intpair"}
LIST_OF = {"int": "ints", "ints": "ints2"}


class Tr:
    def __init__(self, env, funcs, subst=None, pure_comps=False):
        self.env = dict(env)          # python name -> type
        self.funcs = funcs            # python nested function name -> (lean name, [param types], result type, extra lean args)
        self.subst = subst or {}      # ast.dump of an expression -> parameter name (a quantity the fragment takes as given)
        self.pure_comps = pure_comps  # comprehensions whose element and condition cannot raise: List.map / List.filter

    # ---- types
    def ty(self, n):
        if ast.dump(n) in self.subst:
            return self.env[self.subst[ast.dump(n)]]
        if isinstance(n, ast.Constant) and isinstance(n.value, int) and not isinstance(n.value, bool):
            return "int"
        if isinstance(n, ast.BinOp) and isinstance(n.op, (ast.Pow, ast.FloorDiv)):
            if self.ty(n.left) == "int" and self.ty(n.right) == "int":
                return "int"
            raise Unsupported("power / floor division of non-integers")
        if isinstance(n, ast.UnaryOp) and isinstance(n.op, ast.USub) and self.ty(n.operand) == "int":
            return "int"
        if isinstance(n, ast.Name):
            if n.id not in self.env:
                raise Unsupported("unknown name " + n.id)
            return self.env[n.id]
        if isinstance(n, ast.BinOp) and isinstance(n.op, (ast.Add, ast.Sub, ast.Mult)):
            if self.ty(n.left) == "int" and self.ty(n.right) == "int":
                return "int"
            raise Unsupported("arithmetic on non-integers")
        if isinstance(n, ast.Compare):
            return "bool"
        if isinstance(n, ast.UnaryOp) and isinstance(n.op, ast.Not):
            return "bool"
        if isinstance(n, ast.Subscript) and not isinstance(n.slice, ast.Slice):
            t = self.ty(n.value)
            if t in ("ints", "ints2"):
                return ELT[t]
            raise Unsupported("index into " + t)
        if isinstance(n, ast.Call) and isinstance(n.func, ast.Name) and not n.keywords:
            f = n.func.id
            if f in ("abs", "len", "max") and len(n.args) == 1:
                if f == "abs" and self.ty(n.args[0]) != "int":
                    raise Unsupported("abs of a non-integer")
                if f == "max" and self.ty(n.args[0]) != "ints":
                    raise Unsupported("max of a non-list")
                if f == "len" and self.ty(n.args[0]) not in ("ints", "ints2"):
                    raise Unsupported("len of a non-list")
                return "int"
            if f == "range" and 1 <= len(n.args) <= 2:
                return "ints"
            if f == "zip" and len(n.args) == 2 and self.ty(n.args[0]) == "ints" and self.ty(n.args[1]) == "ints":
                return "intpairs"
            if f == "float" and len(n.args) == 1 and self.ty(n.args[0]) == "int":
                return "int"          # float(k) of a whole number k: read as k (exact below 2^53)
            if f in self.funcs and f not in self.env:
                lean, ptys, rty, _ = self.funcs[f]
                if [self.ty(a) for a in n.args] != ptys:
                    raise Unsupported("argument types of " + f)
                return rty
        if self.is_fromkeys(n):
            return "ints"
        if self.is_count(n):
            return "int"
        if isinstance(n, ast.ListComp):
            with self.bound(n):
                et = self.ty(n.elt)
            if et not in LIST_OF:
                raise Unsupported("comprehension element type " + et)
            return LIST_OF[et]
        raise Unsupported("type of " + ast.dump(n)[:80])

    def is_fromkeys(self, n):
        """`dict.fromkeys(list(s))` on a sequence of symbols: its distinct symbols in first-occurrence order."""
        return (isinstance(n, ast.Call) and isinstance(n.func, ast.Attribute) and n.func.attr == "fromkeys" and isinstance(n.func.value, ast.Name)
                and n.func.value.id == "dict" and len(n.args) == 1 and not n.keywords and isinstance(n.args[0], ast.Call)
                and isinstance(n.args[0].func, ast.Name) and n.args[0].func.id == "list" and len(n.args[0].args) == 1
                and self.ty(n.args[0].args[0]) == "ints")

    def is_count(self, n):
        """`s.count(x)` on a sequence of symbols."""
        return (isinstance(n, ast.Call) and isinstance(n.func, ast.Attribute) and n.func.attr == "count" and len(n.args) == 1 and not n.keywords
                and isinstance(n.func.value, ast.Name) and self.env.get(n.func.value.id) == "ints" and self.ty(n.args[0]) == "int")

    class _Bound:
        def __init__(self, tr, names):
            self.tr, self.names = tr, names

        def __enter__(self):
            self.saved = {k: self.tr.env.get(k) for k in self.names}
            self.tr.env.update(self.names)

        def __exit__(self, *a):
            for k, v in self.saved.items():
                if v is None:
                    self.tr.env.pop(k, None)
                else:
                    self.tr.env[k] = v

    def bound(self, comp):
        if len(comp.generators) != 1 or len(comp.generators[0].ifs) > 1 or comp.generators[0].is_async:
            raise Unsupported("comprehension form")
        g = comp.generators[0]
        it = self.ty(g.iter)
        if isinstance(g.target, ast.Name) and it in ("ints", "ints2"):
            return Tr._Bound(self, {g.target.id: ELT[it]})
        if isinstance(g.target, ast.Tuple) and len(g.target.elts) == 2 and all(isinstance(e, ast.Name) for e in g.target.elts) and it == "intpairs":
            return Tr._Bound(self, {e.id: "int" for e in g.target.elts})
        raise Unsupported("comprehension target")

    def pat(self, comp):
        t = comp.generators[0].target
        return "v_" + t.id if isinstance(t, ast.Name) else "(%s)" % ", ".join("v_" + e.id for e in t.elts)

    # ---- pure expressions (cannot raise)
    def is_pure(self, n):
        try:
            self.P(n)
            return True
        except Unsupported:
            return False

    def P(self, n):
        if ast.dump(n) in self.subst:
            return "v_" + self.subst[ast.dump(n)]
        if isinstance(n, ast.Constant) and isinstance(n.value, int) and not isinstance(n.value, bool):
            return "(%d : Int)" % n.value
        if isinstance(n, ast.BinOp) and isinstance(n.op, ast.Pow):
            self.ty(n)
            return "(%s ^ (%s).toNat)" % (self.P(n.left), self.P(n.right))       # a non-negative exponent (the caller's guard)
        if isinstance(n, ast.BinOp) and isinstance(n.op, ast.FloorDiv):
            self.ty(n)
            if not (isinstance(n.right, ast.Constant) and isinstance(n.right.value, int) and n.right.value != 0):
                raise Unsupported("floor division by a non-constant")
            return "(Py.fdiv %s %s)" % (self.P(n.left), self.P(n.right))
        if isinstance(n, ast.UnaryOp) and isinstance(n.op, ast.USub):
            self.ty(n)
            return "(-%s)" % self.P(n.operand)
        if isinstance(n, ast.Compare) and len(n.ops) == 2 and all(self.ty(x) == "int" for x in [n.left] + n.comparators):
            syms = [{ast.Lt: "<", ast.LtE: "≤", ast.Gt: ">", ast.GtE: "≥", ast.Eq: "=", ast.NotEq: "≠"}.get(type(o)) for o in n.ops]
            if all(syms):
                a, b, c = self.P(n.left), self.P(n.comparators[0]), self.P(n.comparators[1])
                return "(decide (%s %s %s) && decide (%s %s %s))" % (a, syms[0], b, b, syms[1], c)
        if isinstance(n, ast.UnaryOp) and isinstance(n.op, ast.Not) and self.ty(n.operand) == "bool":
            return "(!%s)" % self.P(n.operand)
        if isinstance(n, ast.ListComp) and self.pure_comps:
            g = n.generators[0]
            self.ty(n)
            it = self.P(g.iter)
            with self.bound(n):
                p = self.pat(n)
                elt = self.P(n.elt)
                cond = self.P(g.ifs[0]) if g.ifs else None
            if cond:
                return "(List.map (fun %s => %s) (List.filter (fun %s => %s) %s))" % (p, elt, p, cond, it)
            return "(List.map (fun %s => %s) %s)" % (p, elt, it)
        if isinstance(n, ast.Name):
            self.ty(n)
            return "v_" + n.id
        if isinstance(n, ast.BinOp) and isinstance(n.op, (ast.Add, ast.Sub, ast.Mult)):
            self.ty(n)
            return "(%s %s %s)" % (self.P(n.left), {ast.Add: "+", ast.Sub: "-", ast.Mult: "*"}[type(n.op)], self.P(n.right))
        if isinstance(n, ast.Compare) and len(n.ops) == 1 and self.ty(n.left) == "int" and self.ty(n.comparators[0]) == "int":
            sym = {ast.Lt: "<", ast.LtE: "≤", ast.Gt: ">", ast.GtE: "≥", ast.Eq: "=", ast.NotEq: "≠"}.get(type(n.ops[0]))
            if sym:
                return "(decide (%s %s %s))" % (self.P(n.left), sym, self.P(n.comparators[0]))
        if self.is_fromkeys(n):
            return "(Cpl.pyDistinct %s)" % self.P(n.args[0].args[0])
        if self.is_count(n):
            return "((List.count %s %s : Nat) : Int)" % (self.P(n.args[0]), self.P(n.func.value))
        if isinstance(n, ast.Call) and isinstance(n.func, ast.Name) and not n.keywords:
            f = n.func.id
            self.ty(n)
            if f == "float":
                return self.P(n.args[0])
            if f == "abs":
                return "((Int.natAbs %s : Nat) : Int)" % self.P(n.args[0])
            if f == "len":
                return "((List.length %s : Nat) : Int)" % self.P(n.args[0])
            if f == "range":
                a = [self.P(x) for x in n.args]
                return "(Cpl.pyRange 0 %s 1)" % a[0] if len(a) == 1 else "(Cpl.pyRange %s %s 1)" % (a[0], a[1])
            if f == "zip":
                return "(List.zip %s %s)" % (self.P(n.args[0]), self.P(n.args[1]))
        raise Unsupported("not a pure expression: " + ast.dump(n)[:60])

    # ---- expressions that may raise: Lean terms of type `Option τ`
    def M(self, n):
        if self.is_pure(n):
            return "(pure %s : Option %s)" % (self.P(n), LEAN_TY[self.ty(n)])
        t = self.ty(n)
        if isinstance(n, ast.Subscript):
            if self.ty(n.value) != "ints":
                raise Unsupported("index into a non-integer list")
            return "(%s >>= fun k_i => (Py.getIdx %s k_i).toOption)" % (self.M(n.slice), self.P(n.value))
        if isinstance(n, ast.BinOp):
            return "(%s >>= fun k_a => %s >>= fun k_b => (pure (k_a %s k_b) : Option Int))" % (
                self.M(n.left), self.M(n.right), {ast.Add: "+", ast.Sub: "-", ast.Mult: "*"}[type(n.op)])
        if isinstance(n, ast.Compare) and len(n.ops) == 1:
            sym = {ast.Lt: "<", ast.LtE: "≤", ast.Gt: ">", ast.GtE: "≥", ast.Eq: "=", ast.NotEq: "≠"}.get(type(n.ops[0]))
            if not sym or self.ty(n.left) != "int" or self.ty(n.comparators[0]) != "int":
                raise Unsupported("comparison")
            return "(%s >>= fun k_a => %s >>= fun k_b => (pure (decide (k_a %s k_b)) : Option Bool))" % (self.M(n.left), self.M(n.comparators[0]), sym)
        if isinstance(n, ast.Call) and isinstance(n.func, ast.Name):
            f = n.func.id
            if f == "max":
                return "(%s >>= Cpl.pyMax)" % self.M(n.args[0])
            if f == "len":
                return "(%s >>= fun k_l => (pure ((List.length k_l : Nat) : Int) : Option Int))" % self.M(n.args[0])
            if f == "abs":
                return "(%s >>= fun k_a => (pure ((Int.natAbs k_a : Nat) : Int) : Option Int))" % self.M(n.args[0])
            if f in self.funcs:
                lean, ptys, rty, extra = self.funcs[f]
                return "(%s %s)" % (lean, " ".join(extra + [self.P(a) for a in n.args]))       # arguments must be pure
        if isinstance(n, ast.ListComp):
            g = n.generators[0]
            it = self.P(g.iter)                                                                   # the iterable must be pure
            with self.bound(n):
                p = self.pat(n)
                elt = self.M(n.elt)
                cond = self.M(g.ifs[0]) if g.ifs else None
            if cond:
                return "((List.filterM (fun %s => %s) %s) >>= fun k_f => List.mapM (fun %s => %s) k_f)" % (p, cond, it, p, elt)
            return "(List.mapM (fun %s => %s) %s)" % (p, elt, it)
        raise Unsupported("expression " + ast.dump(n)[:80] + " : " + t)


def whole(n):
    """A denominator like `N - m + 1.0`: float literals with a whole value are read as integers."""
    class Fix(ast.NodeTransformer):
        def visit_Constant(self, c):
            if isinstance(c.value, float):
                if c.value != int(c.value):
                    raise Unsupported("fractional literal in a denominator")
                return ast.copy_location(ast.Constant(value=int(c.value)), c)
            return c
    return Fix().visit(ast.parse(ast.unparse(n), mode="eval").body)


HEADER = '''import Cpl.Py
import Cpl.Gen.Blocks
import Cpl.Model.Measures
/-! GENERATED by tools/py2lean_comp.py from /repo/cellpylib/apen.py (the countable part of `apen`: windows, Chebyshev
distance, match counts, denominators) on every run. Do not edit. `Option`: `none` = the Python code raised. -/

namespace Cpl

/-- `max(l)` on a list of integers; `ValueError` (here `none`) on the empty list. -/
def pyMax : List Int → Option Int
  | [] => none
  | x :: xs => some (xs.foldl max x)

end Cpl

namespace Cpl.Gen.Apen
open Cpl
set_option linter.unusedVariables false
'''


def find(body, kind, name):
    for s in body:
        if isinstance(s, kind) and ((kind is ast.FunctionDef and s.name == name) or
                                    (kind is ast.Assign and len(s.targets) == 1 and isinstance(s.targets[0], ast.Name) and s.targets[0].id == name)):
            return s
    raise Unsupported("%s not found" % name)


def emit(out, fname, parts, status, ns):
    parts.append("def translated : List String := [%s]" % ", ".join('"%s"' % k for k, v in status.items() if v == "translated"))
    parts.append("end " + ns)
    text = "\n\n".join(parts) + "\n"
    os.makedirs(out, exist_ok=True)
    path = os.path.join(out, fname)
    if (open(path).read() if os.path.exists(path) else None) != text:
        open(path, "w").write(text)


def make_attempt(parts, status):
    def attempt(name, fn):
        try:
            parts.append(fn())
            status[name] = "translated"
        except Unsupported as e:
            status[name] = "untranslated: %s" % e
            parts.append("-- %s: UNTRANSLATED (%s)" % (name, e))
        except Exception as e:  # noqa
            status[name] = "untranslated: %s: %s" % (type(e).__name__, e)
            parts.append("-- %s: UNTRANSLATED (%s)" % (name, e))
    return attempt


ENT_HEADER = '''import Cpl.Py
/-! GENERATED by tools/py2lean_comp.py from /repo/cellpylib/entropy.py (the countable part of `shannon_entropy`: distinct
symbols, their counts, the length) on every run. Do not edit. -/

namespace Cpl

/-- `dict.fromkeys(list(s))`: the keys of an insertion-ordered dict filled from left to right. -/
def pyDistinct (l : List Int) : List Int := l.foldl (fun acc x => if acc.contains x then acc else acc ++ [x]) []

end Cpl

namespace Cpl.Gen.Entropy
open Cpl
'''


def gen_entropy(repo, out):
    parts = [ENT_HEADER]
    status = {}
    attempt = make_attempt(parts, status)
    try:
        tree = ast.parse(open(os.path.join(repo, "cellpylib", "entropy.py")).read())
        fn = find(tree.body, ast.FunctionDef, "shannon_entropy")
        if [x.arg for x in fn.args.args] != ["string"]:
            raise Unsupported("parameters of shannon_entropy")
    except Exception as e:  # noqa
        fn = None
        parts.append("-- shannon_entropy: not found (%s)" % e)
    if fn is not None:
        def symbols():
            sy = find(fn.body, ast.Assign, "symbols")
            tr = Tr({"string": "ints"}, {})
            if tr.ty(sy.value) != "ints":
                raise Unsupported("symbols is not a list of symbols")
            return ("/-- `symbols = ...` of `shannon_entropy` (entropy.py), translated. -/\ndef shannonSymbols (v_string : List Int) : List Int :=\n  %s"
                    % tr.P(sy.value))
        attempt("shannonSymbols", symbols)

        def probs():
            sp = find(fn.body, ast.Assign, "symbol_probabilities")
            v = sp.value
            if not (isinstance(v, ast.ListComp) and isinstance(v.elt, ast.BinOp) and isinstance(v.elt.op, ast.Div)):
                raise Unsupported("symbol_probabilities is not a comprehension of quotients")
            return v

        def counts():
            v = probs()
            num = ast.ListComp(elt=v.elt.left, generators=v.generators)
            ast.fix_missing_locations(num)
            tr = Tr({"string": "ints", "symbols": "ints"}, {})
            if tr.ty(num) != "ints":
                raise Unsupported("the numerators are not integers")
            return ("/-- The numerators of `symbol_probabilities` of `shannon_entropy` (entropy.py), translated. -/\n"
                    "def shannonCounts (v_string v_symbols : List Int) : Option (List Int) :=\n  %s" % tr.M(num))
        attempt("shannonCounts", counts)

        def denom():
            v = probs()
            tr = Tr({"string": "ints"}, {})
            if any(isinstance(x, ast.Name) and x.id != "string" and x.id != "len" for x in ast.walk(v.elt.right)):
                raise Unsupported("the denominator depends on more than the string")
            return ("/-- The denominator of `symbol_probabilities` of `shannon_entropy` (entropy.py), translated. -/\n"
                    "def shannonDenom (v_string : List Int) : Int :=\n  %s" % tr.P(v.elt.right))
        attempt("shannonDenom", denom)
    emit(out, "Entropy.lean", parts, status, "Cpl.Gen.Entropy")
    return status


RT_HEADER = '''import Cpl.Py
import Cpl.Gen.Blocks
/-! GENERATED by tools/py2lean_comp.py from /repo/cellpylib/rule_tables.py (the countable expressions of
`random_rule_table` and `table_walk_through`: n, the other states, the validity test of the quiescent state, numerator and
denominator of the reported lambda) on every run. Do not edit. -/

namespace Cpl.Gen.RuleTables
open Cpl
'''


def find_deep(fn, name):
    """All assignments `name = ...` anywhere inside fn (nested loops and branches included)."""
    return [s for s in ast.walk(fn) if isinstance(s, ast.Assign) and len(s.targets) == 1 and isinstance(s.targets[0], ast.Name) and s.targets[0].id == name]


def quotient(e):
    if not (isinstance(e, ast.BinOp) and isinstance(e.op, ast.Div)):
        raise Unsupported("not a quotient")
    return e.left, e.right


def gen_rule_tables(repo, out):
    parts = [RT_HEADER]
    status = {}
    attempt = make_attempt(parts, status)
    try:
        tree = ast.parse(open(os.path.join(repo, "cellpylib", "rule_tables.py")).read())
        rrt = find(tree.body, ast.FunctionDef, "random_rule_table")
        walk = find(tree.body, ast.FunctionDef, "table_walk_through")
    except Exception as e:  # noqa
        rrt = walk = None
        parts.append("-- rule_tables: not found (%s)" % e)
    if rrt is not None:
        def others(fn, lean, what):
            def go():
                found = find_deep(fn, "other_states")
                if not found or any(ast.dump(x.value) != ast.dump(found[0].value) for x in found):
                    raise Unsupported("other_states is not defined by one expression")
                tr = Tr({"k": "int", "quiescent_state": "int"}, {}, pure_comps=True)
                if tr.ty(found[0].value) != "ints":
                    raise Unsupported("other_states is not a list of integers")
                return ("/-- `other_states = ...` of `%s` (rule_tables.py), translated. -/\ndef %s (v_k v_quiescent_state : Int) : List Int :=\n  %s"
                        % (what, lean, tr.P(found[0].value)))
            return go
        attempt("rrtOtherStates", others(rrt, "rrtOtherStates", "random_rule_table"))
        attempt("walkOtherStates", others(walk, "walkOtherStates", "table_walk_through"))

        def valid():
            tests = [s for s in rrt.body if isinstance(s, ast.If) and len(s.body) == 1 and isinstance(s.body[0], ast.Raise)
                     and any(isinstance(x, ast.Name) and x.id == "quiescent_state" for x in ast.walk(s.test))]
            if len(tests) != 1:
                raise Unsupported("expected exactly one raising test of quiescent_state")
            tr = Tr({"k": "int", "quiescent_state": "int"}, {})
            return ("/-- The test under which `random_rule_table` raises `ValueError` for the quiescent state (rule_tables.py), translated. -/\n"
                    "def rrtRejects (v_k v_quiescent_state : Int) : Bool :=\n  %s" % tr.P(tests[0].test))
        attempt("rrtRejects", valid)

        def n_of(fn):
            ns = [s for s in fn.body if isinstance(s, ast.Assign) and len(s.targets) == 1 and isinstance(s.targets[0], ast.Name) and s.targets[0].id == "n"]
            if len(ns) != 1:
                raise Unsupported("n is not assigned exactly once")
            return ns[0].value

        def rrt_lambda():
            nv = n_of(rrt)
            al = find(rrt.body, ast.Assign, "actual_lambda_val")
            num, den = quotient(al.value)
            tr0 = Tr({"r": "int"}, {})
            tr = Tr({"k": "int", "n": "int", "quiescent_state_count": "int"}, {})
            return ("/-- `n = ...` and numerator / denominator of `actual_lambda_val` of `random_rule_table` (rule_tables.py), translated. -/\n"
                    "def rrtLambda (v_k v_r v_quiescent_state_count : Int) : Int × Int :=\n  let v_n : Int := %s\n  (%s, %s)"
                    % (tr0.P(nv), tr.P(num), tr.P(den)))
        attempt("rrtLambda", rrt_lambda)

        def walk_lambda():
            al = find(walk.body, ast.FunctionDef, "actual_lambda")
            if al.args.args:
                raise Unsupported("actual_lambda takes parameters")
            nv = n_of(al)
            cnt = find(al.body, ast.Assign, "transitions_to_quiescent_state")
            ret = [s for s in al.body if isinstance(s, ast.Return)]
            if len(ret) != 1:
                raise Unsupported("actual_lambda has not exactly one return")
            num, den = quotient(ret[0].value)
            vals = ast.dump(ast.parse("list(rule_table.values())", mode="eval").body)
            trc = Tr({"values": "ints", "quiescent_state": "int"}, {}, subst={vals: "values"})
            # list(rule_table.values()).count(q): the count method on the substituted parameter
            c = cnt.value
            if not (isinstance(c, ast.Call) and isinstance(c.func, ast.Attribute) and c.func.attr == "count" and len(c.args) == 1
                    and ast.dump(c.func.value) == vals and trc.ty(c.args[0]) == "int"):
                raise Unsupported("transitions_to_quiescent_state is not list(rule_table.values()).count(...)")
            tr0 = Tr({"r": "int"}, {})
            tr = Tr({"k": "int", "n": "int", "transitions_to_quiescent_state": "int"}, {})
            return ("/-- `actual_lambda()` of `table_walk_through` (rule_tables.py): `n`, the count of quiescent transitions over the table's values, "
                    "numerator / denominator of the returned quotient, translated. -/\n"
                    "def walkLambda (v_values : List Int) (v_k v_r v_quiescent_state : Int) : Int × Int :=\n  let v_n : Int := %s\n"
                    "  let v_transitions_to_quiescent_state : Int := ((List.count %s v_values : Nat) : Int)\n  (%s, %s)"
                    % (tr0.P(nv), trc.P(c.args[0]), tr.P(num), tr.P(den)))
        attempt("walkLambda", walk_lambda)
    def table_rule():
        fn = find(tree.body, ast.FunctionDef, "table_rule")
        if [x.arg for x in fn.args.args] != ["neighbourhood", "table"]:
            raise Unsupported("parameters of table_rule")
        body = [st for st in fn.body if not (isinstance(st, ast.Expr) and isinstance(st.value, ast.Constant))]
        if len(body) != 3:
            raise Unsupported("table_rule has not exactly three statements")
        s1, s2, s3 = body
        # 1. key = ''.join(str(x) for x in neighbourhood): the neighbourhood's digit string (digits = states, k <= 10)
        if not (isinstance(s1, ast.Assign) and isinstance(s1.targets[0], ast.Name) and ast.unparse(s1.value) == "''.join((str(x) for x in neighbourhood))"):
            raise Unsupported("first statement is not key = ''.join(str(x) for x in neighbourhood)")
        key = s1.targets[0].id
        # 2. if not key in table: raise ...      (also: if key not in table)
        ok = isinstance(s2, ast.If) and not s2.orelse and len(s2.body) == 1 and isinstance(s2.body[0], ast.Raise) \
            and ast.unparse(s2.test) in ("not %s in table" % key, "%s not in table" % key)
        if not ok:
            raise Unsupported("second statement is not the membership test raising an error")
        # 3. return table[key]
        if not (isinstance(s3, ast.Return) and ast.unparse(s3.value) == "table[%s]" % key):
            raise Unsupported("third statement is not return table[key]")
        return ("/-- `table_rule` (rule_tables.py), translated statement by statement: the table is the list of its (key, value) items, a key\n"
                "    the list of its digits; `k in table` = a lookup that succeeds, `table[k]` = the lookup (`none` = `KeyError`). -/\n"
                "def tableRule (v_neighbourhood : List Int) (v_table : List (List Int × Int)) : Option Int := do\n"
                "  let v_%s : List Int := v_neighbourhood\n"
                "  if (!(List.lookup v_%s v_table).isSome) then none\n"
                "  List.lookup v_%s v_table" % (key, key, key))
    if rrt is not None:
        attempt("tableRule", table_rule)
    emit(out, "RuleTables.lean", parts, status, "Cpl.Gen.RuleTables")
    return status


ST_HEADER = '''import Cpl.Py
import Cpl.Gen.Blocks
/-! GENERATED by tools/py2lean_comp.py from /repo/cellpylib/ca_functions.py (`_index_strides` on a 1-D array: the padded
array, the shape arithmetic, the strided view) on every run. Do not edit. `Option`: `none` = NumPy raises (a negative
dimension) or the view would read outside the buffer. -/

namespace Cpl

/-- `np.lib.stride_tricks.as_strided(a, shape=(rows, cols), strides=(s, s))` on a 1-D array whose element stride is `s`:
    entry `(i, j)` is `a[i + j]`. -/
def stridedView (a : List Int) (rows cols : Int) : Option (List (List Int)) :=
  if rows < 0 ∨ cols < 0 then none
  else (pyRange 0 rows 1).mapM fun i => (pyRange 0 cols 1).mapM fun j => (Py.getIdx a (i + j)).toOption

end Cpl

namespace Cpl.Gen.Strides
open Cpl
'''


def gen_strides(repo, out):
    parts = [ST_HEADER]
    status = {}
    attempt = make_attempt(parts, status)

    def strides():
        tree = ast.parse(open(os.path.join(repo, "cellpylib", "ca_functions.py")).read())
        fn = find(tree.body, ast.FunctionDef, "_index_strides")
        if [x.arg for x in fn.args.args] != ["arr", "window_size"]:
            raise Unsupported("parameters of _index_strides")
        body = [st for st in fn.body if not (isinstance(st, ast.Expr) and isinstance(st.value, ast.Constant))]
        if len(body) != 4:
            raise Unsupported("_index_strides has not exactly four statements")
        s1, s2, s3, s4 = body
        tr = Tr({"window_size": "int"}, {})
        # 1. arr = np.concatenate((piece, ...)) with pieces arr / arr[lo:] / arr[:hi] / arr[lo:hi]
        if not (isinstance(s1, ast.Assign) and ast.unparse(s1.targets[0]) == "arr" and isinstance(s1.value, ast.Call)
                and ast.unparse(s1.value.func) == "np.concatenate" and len(s1.value.args) == 1 and not s1.value.keywords
                and isinstance(s1.value.args[0], ast.Tuple)):
            raise Unsupported("first statement is not arr = np.concatenate((...))")
        pieces = []
        for e in s1.value.args[0].elts:
            if isinstance(e, ast.Name) and e.id == "arr":
                pieces.append("v_arr")
            elif isinstance(e, ast.Subscript) and isinstance(e.value, ast.Name) and e.value.id == "arr" and isinstance(e.slice, ast.Slice) and e.slice.step is None:
                lo, hi = e.slice.lower, e.slice.upper
                if lo is not None and hi is not None:
                    pieces.append("(Py.slice v_arr %s %s)" % (tr.P(lo), tr.P(hi)))
                elif lo is not None:
                    pieces.append("(Py.sliceFrom v_arr %s)" % tr.P(lo))
                elif hi is not None:
                    pieces.append("(Py.sliceTo v_arr %s)" % tr.P(hi))
                else:
                    pieces.append("v_arr")
            else:
                raise Unsupported("piece of the concatenation: " + ast.unparse(e))
        # 2. shape = arr.shape[:-1] + (rows, cols)   (1-D: arr.shape[:-1] is empty)
        if not (isinstance(s2, ast.Assign) and ast.unparse(s2.targets[0]) == "shape" and isinstance(s2.value, ast.BinOp) and isinstance(s2.value.op, ast.Add)
                and ast.unparse(s2.value.left) == "arr.shape[:-1]" and isinstance(s2.value.right, ast.Tuple) and len(s2.value.right.elts) == 2):
            raise Unsupported("second statement is not shape = arr.shape[:-1] + (rows, cols)")
        alen = ast.dump(ast.parse("arr.shape[-1]", mode="eval").body)
        tr2 = Tr({"window_size": "int", "alen": "int"}, {}, subst={alen: "alen"})
        rows, cols = [tr2.P(e) for e in s2.value.right.elts]
        # 3. strides = arr.strides + (arr.strides[-1],)   (1-D: both strides are the element stride)
        if not (isinstance(s3, ast.Assign) and ast.unparse(s3.targets[0]) == "strides" and ast.unparse(s3.value) == "arr.strides + (arr.strides[-1],)"):
            raise Unsupported("third statement is not strides = arr.strides + (arr.strides[-1],)")
        # 4. return as_strided(arr, shape=shape, strides=strides)
        if not (isinstance(s4, ast.Return) and isinstance(s4.value, ast.Call) and ast.unparse(s4.value.func) == "np.lib.stride_tricks.as_strided"
                and [ast.unparse(x) for x in s4.value.args] == ["arr"]
                and sorted((k.arg, ast.unparse(k.value)) for k in s4.value.keywords) == [("shape", "shape"), ("strides", "strides")]):
            raise Unsupported("fourth statement is not return as_strided(arr, shape=shape, strides=strides)")
        return ("/-- `_index_strides(arr, window_size)` on a 1-D integer array (ca_functions.py), translated. -/\n"
                "def indexStrides (v_arr0 : List Int) (v_window_size : Int) : Option (List (List Int)) :=\n"
                "  let v_arr : List Int := v_arr0\n"
                "  let v_arr : List Int := %s\n"
                "  let v_alen : Int := ((List.length v_arr : Nat) : Int)\n"
                "  Cpl.stridedView v_arr %s %s" % (" ++ ".join(pieces), rows, cols))
    attempt("indexStrides", strides)
    emit(out, "Strides.lean", parts, status, "Cpl.Gen.Strides")
    return status


BL_HEADER = '''import Cpl.Model.Measures
/-! GENERATED by tools/py2lean_comp.py from /repo/cellpylib/bien.py (the accumulation loops of `bien`, `tbien`, `ktbien`) on
every run. Do not edit. Floating-point operations are written over the abstract arithmetic record `Num F` of the model
(`+ - * /` = `N.add/sub/mul/div`, `math.log(x, 2.0)` = `N.log2`, a whole number used as a float = `N.ofNat`), so the same
text is the Float computation of the driver (`floatNum`) and the real-number formula of the theorems (`realNum`).
`shannon_entropy`, `binary_derivative`, `cyclic_binary_derivative` are the model's functions (sibling calls; the derivatives
have their own source tie in Ties/C18.lean, the entropy's countable part in Ties/C16.lean). A `for` loop over `range(e)` is a
left fold over `List.range` whose state is the tuple of the variables the body reassigns. -/

namespace Cpl.Gen.BienLoops
open Cpl
set_option linter.unusedVariables false
'''


class FloatFn:
    """One function of bien.py: straight-line float / int / string code with one `for k in range(e)` loop."""
    SIBLINGS = {"binary_derivative": "binaryDerivative", "cyclic_binary_derivative": "cyclicBinaryDerivative"}

    def __init__(self, fn):
        self.fn = fn
        self.params = [a.arg for a in fn.args.args]
        if not self.params or fn.args.defaults or fn.args.vararg or fn.args.kwarg:
            raise Unsupported("parameters of " + fn.name)
        self.types = {p: "str" for p in self.params}       # every parameter is a sequence of symbols

    def ty(self, n):
        if isinstance(n, ast.Constant):
            if isinstance(n.value, bool):
                raise Unsupported("bool")
            if isinstance(n.value, int):
                return "int"
            if isinstance(n.value, float):
                return "float"
        if isinstance(n, ast.Name):
            if n.id not in self.types:
                raise Unsupported("unknown name " + n.id)
            return self.types[n.id]
        if isinstance(n, ast.BinOp):
            a, b = self.ty(n.left), self.ty(n.right)
            if "str" in (a, b):
                raise Unsupported("arithmetic on a string")
            if isinstance(n.op, ast.Div):
                return "float"
            if isinstance(n.op, (ast.Add, ast.Sub, ast.Mult)):
                return "float" if "float" in (a, b) else "int"
            if isinstance(n.op, ast.Pow) and a == "int" and b == "int":
                return "int"
        if isinstance(n, ast.UnaryOp) and isinstance(n.op, ast.USub) and self.ty(n.operand) == "float":
            return "float"
        if isinstance(n, ast.ListComp):
            g = n.generators
            if len(g) != 1 or g[0].ifs or not isinstance(g[0].target, ast.Name):
                raise Unsupported("comprehension form")
            it = self.ty(g[0].iter)
            if it not in ("str", "floats"):
                raise Unsupported("comprehension over " + it)
            old = self.types.get(g[0].target.id)
            self.types[g[0].target.id] = "int" if it == "str" else "float"
            try:
                et = self.ty(n.elt)
            finally:
                if old is None:
                    self.types.pop(g[0].target.id, None)
                else:
                    self.types[g[0].target.id] = old
            if et != "float":
                raise Unsupported("comprehension element is not a float")
            return "floats"
        if isinstance(n, ast.Call) and not n.keywords:
            f = ast.unparse(n.func)
            if f == "dict.fromkeys" and len(n.args) == 1 and ast.unparse(n.args[0]).startswith("list(") and self.ty(n.args[0].args[0]) == "str":
                return "str"        # the distinct symbols, again a sequence of symbols
            if f == "sum" and len(n.args) == 1 and self.ty(n.args[0]) == "floats":
                return "float"
            if f == "float" and len(n.args) == 1 and self.ty(n.args[0]) == "int":
                return "float"
            if isinstance(n.func, ast.Attribute) and n.func.attr == "count" and len(n.args) == 1 and self.ty(n.func.value) == "str" and self.ty(n.args[0]) == "int":
                return "int"
            if f == "len" and len(n.args) == 1 and self.ty(n.args[0]) == "str":
                return "int"
            if f == "shannon_entropy" and len(n.args) == 1 and self.ty(n.args[0]) == "str":
                return "float"
            if f == "joint_shannon_entropy" and len(n.args) == 2 and all(self.ty(x) == "str" for x in n.args):
                return "float"
            if f == "math.log" and len(n.args) == 2 and isinstance(n.args[1], ast.Constant) and n.args[1].value == 2.0 and self.ty(n.args[0]) in ("int", "float"):
                return "float"
            if f in self.SIBLINGS and len(n.args) == 1 and self.ty(n.args[0]) == "str":
                return "str"
        raise Unsupported("expression " + ast.unparse(n)[:60])

    def I(self, n):
        if isinstance(n, ast.Constant):
            return "(%d : Int)" % n.value
        if isinstance(n, ast.Name):
            return "v_" + n.id
        if isinstance(n, ast.BinOp):
            if isinstance(n.op, ast.Pow):
                return "(%s ^ (%s).toNat)" % (self.I(n.left), self.I(n.right))      # non-negative exponent: the tie's guard
            return "(%s %s %s)" % (self.I(n.left), {ast.Add: "+", ast.Sub: "-", ast.Mult: "*"}[type(n.op)], self.I(n.right))
        if isinstance(n, ast.Call) and ast.unparse(n.func) == "len":
            return "((List.length %s : Nat) : Int)" % self.S(n.args[0])
        if isinstance(n, ast.Call) and isinstance(n.func, ast.Attribute) and n.func.attr == "count":
            return "((List.count %s %s : Nat) : Int)" % (self.I(n.args[0]), self.S(n.func.value))
        raise Unsupported("integer expression " + ast.unparse(n)[:60])

    def S(self, n):
        if isinstance(n, ast.Name):
            return "v_" + n.id
        if isinstance(n, ast.Call) and ast.unparse(n.func) == "dict.fromkeys":
            return "(Cpl.pyDistinct %s)" % self.S(n.args[0].args[0])
        if isinstance(n, ast.Call):
            return "(%s %s)" % (self.SIBLINGS[ast.unparse(n.func)], self.S(n.args[0]))
        raise Unsupported("string expression " + ast.unparse(n)[:60])

    def Fl(self, n):
        t = self.ty(n)
        if t == "int":
            if isinstance(n, ast.Constant) and n.value >= 0:
                return "(N.ofNat %d)" % n.value
            return "(N.ofNat (%s).toNat)" % self.I(n)          # a whole, non-negative number used as a float
        if isinstance(n, ast.Constant):
            if n.value != int(n.value) or n.value < 0:
                raise Unsupported("float literal " + repr(n.value))
            return "(N.ofNat %d)" % int(n.value)
        if isinstance(n, ast.Name):
            return "v_" + n.id
        if isinstance(n, ast.BinOp):
            op = {ast.Add: "N.add", ast.Sub: "N.sub", ast.Mult: "N.mul", ast.Div: "N.div"}.get(type(n.op))
            if not op:
                raise Unsupported("float operator")
            return "(%s %s %s)" % (op, self.Fl(n.left), self.Fl(n.right))
        if isinstance(n, ast.UnaryOp):
            return "(N.neg %s)" % self.Fl(n.operand)
        if isinstance(n, ast.Call):
            f = ast.unparse(n.func)
            if f == "shannon_entropy":
                return "(shannon N %s)" % self.S(n.args[0])
            if f == "joint_shannon_entropy":
                return "(jointShannon N %s %s)" % (self.S(n.args[0]), self.S(n.args[1]))
            if f == "math.log":
                return "(N.log2 %s)" % self.Fl(n.args[0])
            if f == "sum":
                return "(N.sum %s)" % self.L(n.args[0])
            if f == "float":
                return self.Fl(n.args[0])
        raise Unsupported("float expression " + ast.unparse(n)[:60])

    def L(self, n):
        """A list of floats."""
        if isinstance(n, ast.Name):
            return "v_" + n.id
        if isinstance(n, ast.ListComp):
            self.ty(n)
            g = n.generators[0]
            it_t = self.ty(g.iter)
            it = self.S(g.iter) if it_t == "str" else self.L(g.iter)
            old = self.types.get(g.target.id)
            self.types[g.target.id] = "int" if it_t == "str" else "float"
            try:
                elt = self.Fl(n.elt)
            finally:
                if old is None:
                    self.types.pop(g.target.id, None)
                else:
                    self.types[g.target.id] = old
            return "(List.map (fun v_%s => %s) %s)" % (g.target.id, elt, it)
        raise Unsupported("list expression " + ast.unparse(n)[:60])

    LT = {"int": "Int", "float": "F", "str": "List Int", "floats": "List F"}

    def E(self, n):
        t = self.ty(n)
        return {"int": self.I, "float": self.Fl, "str": self.S, "floats": self.L}[t](n), t

    def assign(self, st, pad):
        if isinstance(st, ast.Assign) and len(st.targets) == 1 and isinstance(st.targets[0], ast.Name):
            nm = st.targets[0].id
            e, t = self.E(st.value)
            if self.types.setdefault(nm, t) != t:
                raise Unsupported("variable %s changes type" % nm)
            return nm, "%slet v_%s : %s := %s" % (pad, nm, self.LT[t], e)
        if isinstance(st, ast.AugAssign) and isinstance(st.op, ast.Add) and isinstance(st.target, ast.Name) and self.types.get(st.target.id) == "float":
            nm = st.target.id
            return nm, "%slet v_%s : F := (N.add v_%s %s)" % (pad, nm, nm, self.Fl(st.value))
        raise Unsupported("statement " + ast.unparse(st)[:60])

    def render(self, lean):
        body = [st for st in self.fn.body if not (isinstance(st, ast.Expr) and isinstance(st.value, ast.Constant))]
        out = ["def %s {F : Type} (N : Num F) %s : F :=" % (lean, " ".join("(v_%s0 : List Int)" % p for p in self.params))]
        out += ["  let v_%s : List Int := v_%s0" % (p, p) for p in self.params]
        order = list(self.params)
        seen_loop = False
        for st in body:
            if isinstance(st, ast.For):
                if seen_loop or st.orelse or not isinstance(st.target, ast.Name):
                    raise Unsupported("loop form")
                seen_loop = True
                it = st.iter
                if not (isinstance(it, ast.Call) and ast.unparse(it.func) == "range" and len(it.args) == 1 and self.ty(it.args[0]) == "int"):
                    raise Unsupported("loop is not over range(e)")
                kv = st.target.id
                self.types[kv] = "int"
                inner, mutated = [], []
                for b in st.body:
                    nm, txt = self.assign(b, "    ")
                    inner.append(txt)
                    if nm in order and nm not in mutated:
                        mutated.append(nm)
                state = [v for v in order if v in mutated]
                if not state:
                    raise Unsupported("loop without state")
                sty = " × ".join(self.LT[self.types[v]] for v in state)

                def proj(i):
                    if len(state) == 1:
                        return "st"
                    return "st." + "2." * i + ("1" if i < len(state) - 1 else "")
                projs = []
                for i, v in enumerate(state):
                    pr = "st" if len(state) == 1 else ("st." + "2." * i + "1" if i < len(state) - 1 else "st." + "2." * (i - 1) + "2")
                    projs.append((v, pr))
                out.append("  let st := (List.range (%s).toNat).foldl (fun (st : %s) (k_%s : Nat) =>" % (self.I(it.args[0]), sty, kv))
                for v, pr in projs:
                    out.append("    let v_%s := %s" % (v, pr))
                out.append("    let v_%s : Int := (k_%s : Int)" % (kv, kv))
                out += inner
                out.append("    (%s)) (%s)" % (", ".join("v_" + v for v in state), ", ".join("v_" + v for v in state)))
                for v, pr in projs:
                    out.append("  let v_%s := %s" % (v, pr))
            elif isinstance(st, ast.Return):
                e, t = self.E(st.value)
                if t != "float":
                    raise Unsupported("does not return a float")
                out.append("  " + e)
                return "\n".join(out)
            else:
                nm, txt = self.assign(st, "  ")
                out.append(txt)
                if nm not in order:
                    order.append(nm)
        raise Unsupported("no return")


EF_HEADER = '''import Cpl.Model.Measures
import Cpl.Gen.Entropy
/-! GENERATED by tools/py2lean_comp.py from /repo/cellpylib/entropy.py (`shannon_entropy`, whole) on every run. Do not edit.
Floating-point operations are written over the abstract arithmetic record `Num F` of the model (see Gen/BienLoops.lean);
`sum(list)` = `N.sum` (a left fold from 0), a comprehension = `List.map`, `dict.fromkeys(list(s))` = `pyDistinct s`. -/

namespace Cpl.Gen.EntropyFull
open Cpl
set_option linter.unusedVariables false
'''


def gen_entropy_full(repo, out):
    parts = [EF_HEADER]
    status = {}
    attempt = make_attempt(parts, status)

    def go():
        tree = ast.parse(open(os.path.join(repo, "cellpylib", "entropy.py")).read())
        fn = find(tree.body, ast.FunctionDef, "shannon_entropy")
        return "/-- `shannon_entropy` (entropy.py), translated statement by statement over the abstract arithmetic `N`. -/\n%s" % FloatFn(fn).render("shannonEntropy")
    attempt("shannonEntropy", go)

    def mi():
        tree = ast.parse(open(os.path.join(repo, "cellpylib", "entropy.py")).read())
        fn = find(tree.body, ast.FunctionDef, "mutual_information")
        return ("/-- `mutual_information` (entropy.py), translated over the abstract arithmetic `N` (`shannon_entropy`, "
                "`joint_shannon_entropy` = the model's functions: sibling calls). -/\n%s" % FloatFn(fn).render("mutualInformation"))
    attempt("mutualInformation", mi)
    emit(out, "EntropyFull.lean", parts, status, "Cpl.Gen.EntropyFull")
    return status


def gen_bien_loops(repo, out):
    parts = [BL_HEADER]
    status = {}
    attempt = make_attempt(parts, status)
    try:
        tree = ast.parse(open(os.path.join(repo, "cellpylib", "bien.py")).read())
    except Exception as e:  # noqa
        tree = None
        parts.append("-- bien.py: not readable (%s)" % e)
    if tree is not None:
        for name in ("bien", "tbien", "ktbien"):
            def go(name=name):
                fn = find(tree.body, ast.FunctionDef, name)
                return "/-- `%s` (bien.py), translated statement by statement over the abstract arithmetic `N`. -/\n%s" % (name, FloatFn(fn).render(name))
            attempt(name, go)
    emit(out, "BienLoops.lean", parts, status, "Cpl.Gen.BienLoops")
    return status


UF_HEADER = '''import Cpl.Py
/-! GENERATED by tools/py2lean_comp.py from /repo/cellpylib/ca_functions.py (`until_fixed_point`: the predicate it returns) on
every run. Do not edit. The evolution so far is the list of its rows; `Option`: `none` = the Python code raised. -/

namespace Cpl

/-- `(a == b).all()` on two rows of equal length (two states of one automaton). -/
def rowsEqAll (a b : List Int) : Bool := decide (a = b)

end Cpl

namespace Cpl.Gen.FixedPoint
open Cpl
set_option linter.unusedVariables false
'''


def gen_fixed_point(repo, out):
    parts = [UF_HEADER]
    status = {}
    attempt = make_attempt(parts, status)

    def go():
        tree = ast.parse(open(os.path.join(repo, "cellpylib", "ca_functions.py")).read())
        outer = find(tree.body, ast.FunctionDef, "until_fixed_point")
        inner = [x for x in outer.body if isinstance(x, ast.FunctionDef)]
        ret = [x for x in outer.body if isinstance(x, ast.Return)]
        if len(inner) != 1 or len(ret) != 1 or ast.unparse(ret[0].value) != inner[0].name or outer.args.args:
            raise Unsupported("until_fixed_point does not return its one nested function")
        fn = inner[0]
        if [a.arg for a in fn.args.args] != ["ca", "t"]:
            raise Unsupported("parameters of the predicate")

        def B(n):
            """A Boolean expression; returns (prelude lines, lean Bool term)."""
            if isinstance(n, ast.Constant) and isinstance(n.value, bool):
                return [], "true" if n.value else "false"
            if isinstance(n, ast.Compare) and len(n.ops) == 1 and ast.unparse(n.left) == "len(ca)" and isinstance(n.comparators[0], ast.Constant) \
                    and isinstance(n.comparators[0].value, int):
                sym = {ast.Gt: ">", ast.GtE: "≥", ast.Lt: "<", ast.LtE: "≤", ast.Eq: "=", ast.NotEq: "≠"}.get(type(n.ops[0]))
                if sym:
                    return [], "(decide (((List.length v_ca : Nat) : Int) %s (%d : Int)))" % (sym, n.comparators[0].value)
            if isinstance(n, ast.IfExp):
                p0, c = B(n.test)
                p1, a = B(n.body)
                p2, b = B(n.orelse)
                if p1 or p2:
                    raise Unsupported("conditional expression whose branches can raise")
                return p0, "(if %s then %s else %s)" % (c, a, b)
            if isinstance(n, ast.Call) and isinstance(n.func, ast.Attribute) and n.func.attr == "all" and not n.args and isinstance(n.func.value, ast.Compare) \
                    and len(n.func.value.ops) == 1 and isinstance(n.func.value.ops[0], ast.Eq):
                rows = []
                pre = []
                for k, side in enumerate([n.func.value.left, n.func.value.comparators[0]]):
                    if not (isinstance(side, ast.Subscript) and ast.unparse(side.value) == "ca" and not isinstance(side.slice, ast.Slice)):
                        raise Unsupported("compared rows")
                    idx = ast.literal_eval(side.slice)
                    if not isinstance(idx, int):
                        raise Unsupported("row index")
                    pre.append("let k_row%d ← (Py.getIdx v_ca (%d : Int)).toOption" % (k, idx))
                    rows.append("k_row%d" % k)
                return pre, "(Cpl.rowsEqAll %s %s)" % (rows[0], rows[1])
            raise Unsupported("boolean expression " + ast.unparse(n)[:60])

        def stmts(body, pad):
            out_ = []
            for st in body:
                if isinstance(st, ast.Expr) and isinstance(st.value, ast.Constant):
                    continue
                if isinstance(st, ast.Return):
                    pre, e = B(st.value)
                    out_ += [pad + x for x in pre] + [pad + "return " + e]
                elif isinstance(st, ast.If) and not st.orelse:
                    pre, c = B(st.test)
                    out_ += [pad + x for x in pre] + [pad + "if %s then" % c] + stmts(st.body, pad + "  ")
                else:
                    raise Unsupported("statement " + ast.unparse(st)[:60])
            return out_
        body = stmts(fn.body, "  ")
        return ("/-- The predicate returned by `until_fixed_point()` (ca_functions.py), translated statement by statement. -/\n"
                "def untilFixedPoint (v_ca : List (List Int)) (v_t : Int) : Option Bool := do\n" + "\n".join(body))
    attempt("untilFixedPoint", go)
    emit(out, "FixedPoint.lean", parts, status, "Cpl.Gen.FixedPoint")
    return status


AV_HEADER = '''import Cpl.Model.Measures
import Cpl.Gen.Blocks
/-! GENERATED by tools/py2lean_comp.py from /repo/cellpylib/entropy.py (`average_cell_entropy`, `average_mutual_information`)
on every run. Do not edit. The automaton is the list of its rows; `a.shape[0]` = number of rows, `a.shape[1]` = `numCols`,
`a[:, i]` = `column a i`, `[str(x) for x in col]` = the column itself (states are the symbols: `str` is injective on them),
`np.mean` = `N.mean`, sibling calls = the model's functions, float operations over the abstract arithmetic `Num F`.
`Option`: `none` = the Python code raised. A loop that only appends to a list is a left fold building that list. -/

namespace Cpl.Gen.Averages
open Cpl
set_option linter.unusedVariables false
'''


class AvgFn:
    """average_cell_entropy / average_mutual_information: optional guard, one loop over the columns appending a float."""
    def __init__(self, fn):
        self.fn = fn
        self.params = [a.arg for a in fn.args.args]
        if not self.params or self.params[0] != "cellular_automaton" or len(self.params) > 2:
            raise Unsupported("parameters of " + fn.name)
        self.types = {"cellular_automaton": "arr2"}
        if len(self.params) == 2:
            self.types[self.params[1]] = "int"

    def I(self, n):
        if isinstance(n, ast.Constant) and isinstance(n.value, int) and not isinstance(n.value, bool):
            return "(%d : Int)" % n.value
        if isinstance(n, ast.Name) and self.types.get(n.id) == "int":
            return "v_" + n.id
        if isinstance(n, ast.UnaryOp) and isinstance(n.op, ast.USub):
            return "(-%s)" % self.I(n.operand)
        u = ast.unparse(n)
        if u == "cellular_automaton.shape[0]":
            return "((List.length v_cellular_automaton : Nat) : Int)"
        if u == "cellular_automaton.shape[1]":
            return "((Cpl.numCols v_cellular_automaton : Nat) : Int)"
        raise Unsupported("integer expression " + u[:60])

    def B(self, n):
        if isinstance(n, ast.UnaryOp) and isinstance(n.op, ast.Not):
            return "(!%s)" % self.B(n.operand)
        if isinstance(n, ast.Compare) and len(n.ops) in (1, 2):
            syms = [{ast.Lt: "<", ast.LtE: "≤", ast.Gt: ">", ast.GtE: "≥", ast.Eq: "=", ast.NotEq: "≠"}.get(type(o)) for o in n.ops]
            if all(syms):
                xs = [self.I(x) for x in [n.left] + n.comparators]
                return "(" + " && ".join("decide (%s %s %s)" % (xs[k], syms[k], xs[k + 1]) for k in range(len(syms))) + ")"
        raise Unsupported("condition " + ast.unparse(n)[:60])

    def S(self, n):
        """A sequence of symbols."""
        if isinstance(n, ast.Name) and self.types.get(n.id) == "str":
            return "v_" + n.id
        if isinstance(n, ast.ListComp) and len(n.generators) == 1 and not n.generators[0].ifs and isinstance(n.generators[0].target, ast.Name) \
                and ast.unparse(n.elt) == "str(%s)" % n.generators[0].target.id:
            it = n.generators[0].iter
            if isinstance(it, ast.Subscript) and ast.unparse(it.value) == "cellular_automaton" and isinstance(it.slice, ast.Tuple) and len(it.slice.elts) == 2 \
                    and ast.unparse(it.slice.elts[0]) == ":":
                return "(Cpl.column v_cellular_automaton (%s).toNat)" % self.I(it.slice.elts[1])
        if isinstance(n, ast.Subscript) and isinstance(n.slice, ast.Slice) and n.slice.step is None:
            base = self.S(n.value)
            lo, hi = n.slice.lower, n.slice.upper
            if lo is not None and hi is None:
                return "(Py.sliceFrom %s %s)" % (base, self.I(lo))
            if hi is not None and lo is None:
                return "(Py.sliceTo %s %s)" % (base, self.I(hi))
        raise Unsupported("symbol sequence " + ast.unparse(n)[:70])

    def Fl(self, n):
        if isinstance(n, ast.Name) and self.types.get(n.id) == "float":
            return "v_" + n.id
        if isinstance(n, ast.Call) and not n.keywords:
            f = ast.unparse(n.func)
            if f == "shannon_entropy" and len(n.args) == 1:
                return "(shannon N %s)" % self.S(n.args[0])
            if f == "mutual_information" and len(n.args) == 2:
                return "(mutualInformation N %s %s)" % (self.S(n.args[0]), self.S(n.args[1]))
            if f == "np.mean" and len(n.args) == 1 and isinstance(n.args[0], ast.Name) and self.types.get(n.args[0].id) == "floats":
                return "(N.mean v_%s)" % n.args[0].id
        raise Unsupported("float expression " + ast.unparse(n)[:60])

    def render(self, lean):
        body = [st for st in self.fn.body if not (isinstance(st, ast.Expr) and isinstance(st.value, ast.Constant))]
        ps = "(v_cellular_automaton : List (List Int))" + ("" if len(self.params) == 1 else " (v_%s : Int)" % self.params[1])
        out = ["def %s {F : Type} (N : Num F) %s : Option F := do" % (lean, ps)]
        for st in body:
            if isinstance(st, ast.Assign) and len(st.targets) == 1 and isinstance(st.targets[0], ast.Name):
                nm = st.targets[0].id
                if isinstance(st.value, ast.List) and not st.value.elts:
                    self.types[nm] = "floats"
                    out.append("  let v_%s : List F := []" % nm)
                else:
                    self.types[nm] = "int"
                    out.append("  let v_%s : Int := %s" % (nm, self.I(st.value)))
            elif isinstance(st, ast.If) and not st.orelse and len(st.body) == 1 and isinstance(st.body[0], ast.Raise):
                out.append("  if %s then none" % self.B(st.test))
            elif isinstance(st, ast.For) and not st.orelse and isinstance(st.target, ast.Name):
                it = st.iter
                if not (isinstance(it, ast.Call) and ast.unparse(it.func) == "range" and len(it.args) == 2):
                    raise Unsupported("loop is not over range(a, b)")
                iv = st.target.id
                self.types[iv] = "int"
                inner, acc = [], None
                for b in st.body:
                    if isinstance(b, ast.Assign) and len(b.targets) == 1 and isinstance(b.targets[0], ast.Name):
                        nm = b.targets[0].id
                        try:
                            e = self.S(b.value)
                            self.types[nm] = "str"
                            inner.append("    let v_%s : List Int := %s" % (nm, e))
                        except Unsupported:
                            e = self.Fl(b.value)
                            self.types[nm] = "float"
                            inner.append("    let v_%s : F := %s" % (nm, e))
                    elif isinstance(b, ast.Expr) and isinstance(b.value, ast.Call) and isinstance(b.value.func, ast.Attribute) and b.value.func.attr == "append" \
                            and isinstance(b.value.func.value, ast.Name) and self.types.get(b.value.func.value.id) == "floats" and len(b.value.args) == 1:
                        if acc is not None:
                            raise Unsupported("two appends in the loop")
                        acc = b.value.func.value.id
                        inner.append("    acc ++ [%s]" % self.Fl(b.value.args[0]))
                    else:
                        raise Unsupported("loop statement " + ast.unparse(b)[:60])
                if acc is None or not inner[-1].startswith("    acc ++"):
                    raise Unsupported("the loop does not end by appending to a list")
                out.append("  let v_%s : List F := (Cpl.pyRange %s %s 1).foldl (fun (acc : List F) (v_%s : Int) =>" % (acc, self.I(it.args[0]), self.I(it.args[1]), iv))
                out += inner[:-1] + [inner[-1] + ") v_%s" % acc]
            elif isinstance(st, ast.Return):
                out.append("  pure %s" % self.Fl(st.value))
                return "\n".join(out)
            else:
                raise Unsupported("statement " + ast.unparse(st)[:60])
        raise Unsupported("no return")


def gen_averages(repo, out):
    parts = [AV_HEADER]
    status = {}
    attempt = make_attempt(parts, status)
    for (py, lean) in (("average_cell_entropy", "averageCellEntropy"), ("average_mutual_information", "averageMutualInformation")):
        def go(py=py, lean=lean):
            tree = ast.parse(open(os.path.join(repo, "cellpylib", "entropy.py")).read())
            fn = find(tree.body, ast.FunctionDef, py)
            return "/-- `%s` (entropy.py), translated statement by statement. -/\n%s" % (py, AvgFn(fn).render(lean))
        attempt(lean, go)
    emit(out, "Averages.lean", parts, status, "Cpl.Gen.Averages")
    return status


GM_HEADER = '''import Cpl.Py
/-! GENERATED by tools/py2lean_comp.py from /repo/cellpylib/ca_functions.py (`_get_memoized`) on every run. Do not edit.
The memoization table is the list of its (key, value) items; `n.tobytes()` is the neighbourhood's contents (within one
evolution dtype and length are fixed, so equal bytes = equal contents); the user's rule is a parameter that threads its own
state; `d[k] = v` is `Cpl.dictSet`. -/

namespace Cpl

/-- `d[k] = v` on an insertion-ordered dict: replace in place, or append a new item. -/
def dictSet {κ ν : Type} [BEq κ] (d : List (κ × ν)) (k : κ) (v : ν) : List (κ × ν) :=
  if d.any (fun e => e.1 == k) then d.map (fun e => if e.1 == k then (e.1, v) else e) else d ++ [(k, v)]

end Cpl

namespace Cpl.Gen.Memo
open Cpl
'''


def gen_memo(repo, out):
    parts = [GM_HEADER]
    status = {}
    attempt = make_attempt(parts, status)

    def go():
        tree = ast.parse(open(os.path.join(repo, "cellpylib", "ca_functions.py")).read())
        fn = find(tree.body, ast.FunctionDef, "_get_memoized")
        ps = [a.arg for a in fn.args.args]
        if ps != ["n", "c", "t", "apply_rule", "memoization_table"]:
            raise Unsupported("parameters of _get_memoized")
        body = [st for st in fn.body if not (isinstance(st, ast.Expr) and isinstance(st.value, ast.Constant))]
        if len(body) != 2 or not (isinstance(body[0], ast.Assign) and isinstance(body[0].targets[0], ast.Name) and ast.unparse(body[0].value) == "n.tobytes()"):
            raise Unsupported("_get_memoized does not start with key = n.tobytes()")
        key = body[0].targets[0].id
        iff = body[1]
        if not (isinstance(iff, ast.If) and ast.unparse(iff.test) == "%s in memoization_table" % key and len(iff.body) == 1 and isinstance(iff.body[0], ast.Return)
                and ast.unparse(iff.body[0].value) == "memoization_table[%s]" % key and len(iff.orelse) == 3):
            raise Unsupported("_get_memoized is not `if key in table: return table[key] else: ...`")
        a, b, c = iff.orelse
        if not (isinstance(a, ast.Assign) and isinstance(a.targets[0], ast.Name) and ast.unparse(a.value) == "apply_rule(n, c, t)"):
            raise Unsupported("the miss branch does not start with result = apply_rule(n, c, t)")
        res = a.targets[0].id
        if not (isinstance(b, ast.Assign) and ast.unparse(b.targets[0]) == "memoization_table[%s]" % key and ast.unparse(b.value) == res):
            raise Unsupported("the miss branch does not store the result under the key")
        if not (isinstance(c, ast.Return) and ast.unparse(c.value) == res):
            raise Unsupported("the miss branch does not return the result")
        return ("/-- `_get_memoized` (ca_functions.py), translated statement by statement. -/\n"
                "def getMemoized {σ : Type} (applyRule : σ → List Int → Int → Int → Int × σ) (v_n : List Int) (v_c v_t : Int)\n"
                "    (v_memoization_table : List (List Int × Int)) (s : σ) : Int × List (List Int × Int) × σ :=\n"
                "  let v_%(k)s : List Int := v_n\n"
                "  if (List.lookup v_%(k)s v_memoization_table).isSome then\n"
                "    ((List.lookup v_%(k)s v_memoization_table).getD 0, v_memoization_table, s)\n"
                "  else\n"
                "    let (v_%(r)s, s1) := applyRule s v_n v_c v_t\n"
                "    let v_memoization_table := Cpl.dictSet v_memoization_table v_%(k)s v_%(r)s\n"
                "    (v_%(r)s, v_memoization_table, s1)" % dict(k=key, r=res))
    attempt("getMemoized", go)
    emit(out, "Memo.lean", parts, status, "Cpl.Gen.Memo")
    return status


def main():
    ap = argparse.ArgumentParser()
    ap.add_argument("--repo", default="/repo")
    ap.add_argument("--out", required=True)
    a = ap.parse_args()
    st = gen_apen(a.repo, a.out)
    st.update(gen_entropy(a.repo, a.out))
    st.update(gen_rule_tables(a.repo, a.out))
    st.update(gen_strides(a.repo, a.out))
    st.update(gen_bien_loops(a.repo, a.out))
    st.update(gen_entropy_full(a.repo, a.out))
    st.update(gen_fixed_point(a.repo, a.out))
    st.update(gen_averages(a.repo, a.out))
    st.update(gen_memo(a.repo, a.out))
    print("py2lean_comp: " + "; ".join("%s %s" % kv for kv in st.items()))
    sys.exit(0)


def gen_apen(repo, out):
    class A:
        pass
    a = A()
    a.repo, a.out = repo, out
    parts = [HEADER]
    status = {}

    def attempt(name, fn):
        try:
            parts.append(fn())
            status[name] = "translated"
        except Unsupported as e:
            status[name] = "untranslated: %s" % e
            parts.append("-- %s: UNTRANSLATED (%s)" % (name, e))
        except Exception as e:  # noqa
            status[name] = "untranslated: %s: %s" % (type(e).__name__, e)
            parts.append("-- %s: UNTRANSLATED (%s)" % (name, e))

    try:
        tree = ast.parse(open(os.path.join(a.repo, "cellpylib", "apen.py")).read())
        apen = find(tree.body, ast.FunctionDef, "apen")
    except Exception as e:  # noqa
        apen = None
        parts.append("-- apen: not found (%s)" % e)
    funcs = {}
    if apen is not None:
        def maximum_distance():
            fn = find(apen.body, ast.FunctionDef, "maximum_distance")
            ps = [x.arg for x in fn.args.args]
            if len(ps) != 2 or len(fn.body) != 1 or not isinstance(fn.body[0], ast.Return):
                raise Unsupported("shape of maximum_distance")
            tr = Tr({ps[0]: "ints", ps[1]: "ints"}, {})
            if tr.ty(fn.body[0].value) != "int":
                raise Unsupported("maximum_distance does not return an integer")
            body = tr.M(fn.body[0].value)
            funcs["maximum_distance"] = ("maximumDistance", ["ints", "ints"], "int", [])
            return ("/-- `maximum_distance` (apen.py), translated. -/\ndef maximumDistance (v_%s v_%s : List Int) : Option Int :=\n  %s"
                    % (ps[0], ps[1], body))
        attempt("maximumDistance", maximum_distance)

        def phi_fn():
            fn = find(apen.body, ast.FunctionDef, "phi")
            if [x.arg for x in fn.args.args] != ["m"]:
                raise Unsupported("parameters of phi")
            return fn

        def windows():
            nlen = find(apen.body, ast.Assign, "N")
            tr0 = Tr({"U": "ints"}, {})
            if tr0.ty(nlen.value) != "int":
                raise Unsupported("N is not an integer")
            x = find(phi_fn().body, ast.Assign, "x")
            tr = Tr({"U": "ints", "N": "int", "m": "int"}, {})
            if tr.ty(x.value) != "ints2":
                raise Unsupported("x is not a list of integer lists")
            return ("/-- `N = len(U)` and `x = ...` of `phi` (apen.py), translated. -/\ndef phiWindows (v_U : List Int) (v_m : Int) : Option (List (List Int)) :=\n"
                    "  let v_N : Int := %s\n  %s" % (tr0.P(nlen.value), tr.M(x.value)))
        attempt("phiWindows", windows)

        def c_parts():
            C = find(phi_fn().body, ast.Assign, "C")
            v = C.value
            if not (isinstance(v, ast.ListComp) and isinstance(v.elt, ast.BinOp) and isinstance(v.elt.op, ast.Div)):
                raise Unsupported("C is not a comprehension of quotients")
            return v

        def counts():
            v = c_parts()
            num = ast.ListComp(elt=v.elt.left, generators=v.generators)
            ast.fix_missing_locations(num)
            tr = Tr({"x": "ints2", "r": "int"}, dict(funcs))
            if tr.ty(num) != "ints":
                raise Unsupported("the numerators are not integers")
            return ("/-- The numerators of `C = [len([...]) / D for x_i in x]` of `phi` (apen.py), translated. -/\n"
                    "def phiCounts (v_x : List (List Int)) (v_r : Int) : Option (List Int) :=\n  %s" % tr.M(num))
        attempt("phiCounts", counts)

        def denoms():
            v = c_parts()
            ret = [s for s in phi_fn().body if isinstance(s, ast.Return)]
            if len(ret) != 1:
                raise Unsupported("phi has not exactly one return")
            r = ret[0].value
            # (1 / D) * sum(np.log(C))
            if not (isinstance(r, ast.BinOp) and isinstance(r.op, ast.Mult) and isinstance(r.left, ast.BinOp) and isinstance(r.left.op, ast.Div)
                    and isinstance(r.left.left, ast.Constant) and r.left.left.value == 1
                    and ast.unparse(r.right) == "sum(np.log(C))"):
                raise Unsupported("phi does not return (1 / D) * sum(np.log(C))")
            tr = Tr({"N": "int", "m": "int"}, {})
            return ("/-- The two denominators of `phi` (apen.py): of every `C` entry and of the returned mean, translated. -/\n"
                    "def phiDenoms (v_N v_m : Int) : List Int :=\n  [%s, %s]" % (tr.P(whole(v.elt.right)), tr.P(whole(r.left.right))))
        attempt("phiDenoms", denoms)

        def args():
            ret = [s for s in apen.body if isinstance(s, ast.Return)]
            if len(ret) != 1:
                raise Unsupported("apen has not exactly one return")
            r = ret[0].value
            ok = (isinstance(r, ast.Call) and isinstance(r.func, ast.Name) and r.func.id == "abs" and len(r.args) == 1
                  and isinstance(r.args[0], ast.BinOp) and isinstance(r.args[0].op, ast.Sub))
            if ok:
                l, rr = r.args[0].left, r.args[0].right
                ok = all(isinstance(c, ast.Call) and isinstance(c.func, ast.Name) and c.func.id == "phi" and len(c.args) == 1 and not c.keywords for c in (l, rr))
            if not ok:
                raise Unsupported("apen does not return abs(phi(A) - phi(B))")
            tr = Tr({"m": "int"}, {})
            return ("/-- `(A, B)` of the final `return abs(phi(A) - phi(B))` of `apen` (apen.py), translated. -/\n"
                    "def phiArgs (v_m : Int) : Int × Int :=\n  (%s, %s)" % (tr.P(l.args[0]), tr.P(rr.args[0])))
        attempt("phiArgs", args)

    if all(status.get(k) == "translated" for k in ("phiWindows", "phiCounts", "phiDenoms", "phiArgs")):
        # the two floating-point lines, whose shapes were checked above — C = [NUMERATOR / D0 for x_i in x],
        # return (1 / D1) * sum(np.log(C)), return abs(phi(A) - phi(B)) — assembled from the translated parts over the
        # abstract arithmetic record of the model (np.log = N.ln elementwise, sum = N.sum, abs = N.abs)
        parts.append("""/-- `phi(m)` of `apen` (apen.py): the translated parts above put together along its two floating-point lines. -/
def phiFull {F : Type} (N : Num F) (v_U : List Int) (v_r v_m : Int) : Option F := do
  let v_N : Int := ((List.length v_U : Nat) : Int)
  let v_x ← phiWindows v_U v_m
  let numerators ← phiCounts v_x v_r
  let v_C : List F := numerators.map fun c => N.div (N.ofNat c.toNat) (N.ofNat ((phiDenoms v_N v_m).getD 0 0).toNat)
  pure (N.mul (N.div (N.ofNat 1) (N.ofNat ((phiDenoms v_N v_m).getD 1 0).toNat)) (N.sum (v_C.map N.ln)))

/-- `apen` (apen.py) after the dispatch on the input form: `abs(phi(A) - phi(B))`. -/
def apenFull {F : Type} (N : Num F) (v_U : List Int) (v_m v_r : Int) : Option F := do
  let a ← phiFull N v_U v_r (phiArgs v_m).1
  let b ← phiFull N v_U v_r (phiArgs v_m).2
  pure (N.abs (N.sub a b))""")
        status["apenFull"] = "translated"
    emit(a.out, "Apen.lean", parts, status, "Cpl.Gen.Apen")
    return status


if __name__ == "__main__":
    main()
