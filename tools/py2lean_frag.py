#!/usr/bin/env python3
"""Fragment translator: the block-partition construction inside evolve_block / evolve2d_block (run on every check).

The two block evolvers build their odd-step and even-step index lists with plain Python list code in the middle of
NumPy-heavy functions. This tool slices those statements out of the function bodies (the statements that define, directly
or transitively, `block_indices_odd` and `block_indices_even`; everything else in the function is ignored), treats the
quantities they read as parameters (1-D: `len(initial_conditions)`, `block_size`; 2-D: `rows`, `cols`, `block_size[0]`,
`block_size[1]`) and translates them into typed Lean `do` blocks in the `Option` monad (`none` = the code raised), written
to lean/Cpl/Gen/Blocks.lean. `lean/Cpl/Ties/C10.lean` proves the result equal to the model's `blockIndicesOdd/Even`,
`blockIndices2Odd/Even`.

Types: int = Int, ints = List Int, ints2 = List (List Int), pairs = List (List Int × List Int).
Supported: `list(range(a))`, `list(range(a, b))`, `list(range(a))[::s]`, `range(a, b, s)` as an iterable, `x[i:j]`, `x[:-1]`,
`x[-1]`, `[e] + x`, list comprehensions over ints / range, `(list, list)` tuples, `.append(...)`, nested `for` loops (also
with a 2-tuple target over a list of pairs), `+ - * %`, `len`. Anything else: `untranslated`, the tie does not build.
"""
import argparse
import ast
import os
import sys


class Unsupported(Exception):
    pass


LEAN_TY = {"int": "Int", "ints": "List Int", "ints2": "List (List Int)", "pairs": "List (List Int × List Int)"}


def defines(stmt):
    """Names a statement (re)defines at function level."""
    out = set()
    if isinstance(stmt, ast.Assign):
        for t in stmt.targets:
            if isinstance(t, ast.Name):
                out.add(t.id)
    elif isinstance(stmt, ast.For):
        for n in ast.walk(stmt):
            if isinstance(n, ast.Call) and isinstance(n.func, ast.Attribute) and n.func.attr == "append" and isinstance(n.func.value, ast.Name):
                out.add(n.func.value.id)
    return out


def reads(stmt, subst=()):
    """Names a statement reads, not counting sub-expressions that are parameters of the fragment."""
    out = set()

    def walk(n):
        if isinstance(n, ast.AST) and ast.dump(n) in subst:
            return
        if isinstance(n, ast.Name) and isinstance(n.ctx, ast.Load):
            out.add(n.id)
        for ch in ast.iter_child_nodes(n):
            walk(ch)
    walk(stmt)
    return out


def slice_body(fn, wanted, subst=()):
    """Backward slice: the statements of fn.body (in order) needed to compute the names in `wanted`."""
    need = set(wanted)
    keep = []
    for stmt in reversed(fn.body):
        d = defines(stmt)
        if d & need:
            keep.append(stmt)
            need |= reads(stmt, subst)
    keep.reverse()
    return keep


class Frag:
    def __init__(self, name, params, subst, results):
        self.name = name
        self.env = dict(params)          # lean parameter name -> type
        self.subst = subst               # ast.dump of an expression -> parameter name
        self.results = results
        self.k = 0
        self.pre = []

    def fresh(self):
        self.k += 1
        return "t_%d" % self.k

    def param_of(self, n):
        return self.subst.get(ast.dump(n))

    def ty(self, n):
        p = self.param_of(n)
        if p:
            return self.env[p]
        if isinstance(n, ast.Name):
            if n.id not in self.env:
                raise Unsupported("unknown name " + n.id)
            return self.env[n.id]
        if isinstance(n, ast.Constant) and isinstance(n.value, int) and not isinstance(n.value, bool):
            return "int"
        if isinstance(n, (ast.BinOp,)):
            if isinstance(n.op, ast.Add) and self.ty(n.left) == "ints" and self.ty(n.right) == "ints":
                return "ints"
            return "int"
        if isinstance(n, ast.IfExp):
            return self.ty(n.body)
        if isinstance(n, ast.UnaryOp):
            return "int"
        if isinstance(n, ast.List):
            if not n.elts:
                return "ints"       # refined by use (pairs) in locals_()
            return "ints" if self.ty(n.elts[0]) == "int" else "ints2"
        if isinstance(n, ast.ListComp):
            et = self.comp_elt_type(n)
            return {"int": "ints", "ints": "ints2"}[et]
        if isinstance(n, ast.Subscript):
            if isinstance(n.slice, ast.Slice):
                return self.ty(n.value)
            return {"ints": "int", "ints2": "ints"}[self.ty(n.value)]
        if isinstance(n, ast.Call):
            if isinstance(n.func, ast.Name) and n.func.id == "len":
                return "int"
            if isinstance(n.func, ast.Name) and n.func.id == "list" and len(n.args) == 1 and self.is_range(n.args[0]):
                return "ints"
            if self.is_range(n):
                return "ints"
        raise Unsupported("type of " + ast.dump(n)[:80])

    def is_range(self, n):
        return isinstance(n, ast.Call) and isinstance(n.func, ast.Name) and n.func.id == "range" and 1 <= len(n.args) <= 3 and not n.keywords

    def comp_elt_type(self, n):
        if len(n.generators) != 1 or n.generators[0].ifs or not isinstance(n.generators[0].target, ast.Name):
            raise Unsupported("comprehension form")
        var = n.generators[0].target.id
        old = self.env.get(var)
        self.env[var] = "int"
        try:
            if self.ty(n.generators[0].iter) != "ints":
                raise Unsupported("comprehension over a non-list")
            return self.ty(n.elt)
        finally:
            if old is None:
                self.env.pop(var, None)
            else:
                self.env[var] = old

    def range_expr(self, n):
        a = [self.E(x) for x in n.args]
        if len(a) == 1:
            return "(Cpl.pyRange 0 %s 1)" % a[0]
        if len(a) == 2:
            return "(Cpl.pyRange %s %s 1)" % (a[0], a[1])
        return "(Cpl.pyRange %s %s %s)" % (a[0], a[1], a[2])

    def E(self, n):
        p = self.param_of(n)
        if p:
            return "v_" + p
        if isinstance(n, ast.Constant) and isinstance(n.value, int) and not isinstance(n.value, bool):
            return "(%d : Int)" % n.value
        if isinstance(n, ast.Name):
            self.ty(n)
            return "v_" + n.id
        if isinstance(n, ast.UnaryOp) and isinstance(n.op, ast.USub):
            return "(-%s)" % self.E(n.operand)
        if isinstance(n, ast.BinOp):
            if isinstance(n.op, ast.Add) and self.ty(n.left) == "ints" and self.ty(n.right) == "ints":
                return "(%s ++ %s)" % (self.E(n.left), self.E(n.right))
            if isinstance(n.op, ast.Mod):
                return "(Int.fmod %s %s)" % (self.E(n.left), self.E(n.right))      # Python's %, the caller guards the divisor
            op = {ast.Add: "+", ast.Sub: "-", ast.Mult: "*"}.get(type(n.op))
            if not op or self.ty(n.left) != "int" or self.ty(n.right) != "int":
                raise Unsupported("operator " + type(n.op).__name__)
            return "(%s %s %s)" % (self.E(n.left), op, self.E(n.right))
        if isinstance(n, ast.IfExp):
            if self.ty(n.body) != "int" or self.ty(n.orelse) != "int":
                raise Unsupported("conditional expression on non-integers")
            return "(if %s then %s else %s)" % (self.C(n.test), self.E(n.body), self.E(n.orelse))
        if isinstance(n, ast.List):
            if not n.elts:
                return "[]"
            return "[%s]" % ", ".join(self.E(e) for e in n.elts)
        if isinstance(n, ast.ListComp):
            self.comp_elt_type(n)
            var = n.generators[0].target.id
            self.env[var] = "int"
            save = self.pre
            self.pre = []
            body = self.E(n.elt)
            if self.pre:
                raise Unsupported("comprehension element that can raise")
            self.pre = save
            it = self.E(n.generators[0].iter)
            self.env.pop(var, None)
            return "(%s.map fun v_%s => %s)" % (it, var, body)
        if isinstance(n, ast.Subscript):
            vt = self.ty(n.value)
            if isinstance(n.slice, ast.Slice):
                sl = n.slice
                if sl.step is not None:
                    # list(range(a))[::s]
                    if sl.lower is None and sl.upper is None and isinstance(n.value, ast.Call) and isinstance(n.value.func, ast.Name) \
                            and n.value.func.id == "list" and self.is_range(n.value.args[0]) and len(n.value.args[0].args) == 1:
                        return "(Cpl.pyRange 0 %s %s)" % (self.E(n.value.args[0].args[0]), self.E(sl.step))
                    raise Unsupported("extended slice")
                if vt != "ints":
                    raise Unsupported("slice of a non-list")
                if sl.lower is not None and sl.upper is not None:
                    return "(Py.slice %s %s %s)" % (self.E(n.value), self.E(sl.lower), self.E(sl.upper))
                if sl.upper is not None:
                    return "(Py.sliceTo %s %s)" % (self.E(n.value), self.E(sl.upper))
                if sl.lower is not None:
                    return "(Py.sliceFrom %s %s)" % (self.E(n.value), self.E(sl.lower))
                return self.E(n.value)
            if vt != "ints":
                raise Unsupported("index into a non-list")
            t = self.fresh()
            self.pre.append("let %s ← (Py.getIdx %s %s).toOption" % (t, self.E(n.value), self.E(n.slice)))
            return t
        if isinstance(n, ast.Call):
            if isinstance(n.func, ast.Name) and n.func.id == "len" and len(n.args) == 1:
                return "(%s.length : Int)" % self.E(n.args[0])
            if isinstance(n.func, ast.Name) and n.func.id == "list" and len(n.args) == 1 and self.is_range(n.args[0]):
                return self.range_expr(n.args[0])
            if self.is_range(n):
                return self.range_expr(n)
        raise Unsupported("expression " + ast.dump(n)[:80])

    def C(self, n):
        if isinstance(n, ast.Compare) and len(n.ops) == 1 and self.ty(n.left) == "int" and self.ty(n.comparators[0]) == "int":
            sym = {ast.Lt: "<", ast.LtE: "≤", ast.Gt: ">", ast.GtE: "≥", ast.Eq: "=", ast.NotEq: "≠"}.get(type(n.ops[0]))
            if sym:
                return "(%s %s %s)" % (self.E(n.left), sym, self.E(n.comparators[0]))
        raise Unsupported("condition " + ast.dump(n)[:80])

    def S(self, body, ind, decl):
        out = []
        pad = "  " * ind
        for s in body:
            if isinstance(s, ast.Assign) and len(s.targets) == 1 and isinstance(s.targets[0], ast.Name):
                nm = s.targets[0].id
                if isinstance(s.value, ast.List) and not s.value.elts:
                    out.append("%sv_%s := []" % (pad, nm))
                    continue
                e = self.E(s.value)
                out += [pad + l for l in self.pre]
                self.pre = []
                if self.env.get(nm) != self.ty(s.value):
                    raise Unsupported("variable %s changes type" % nm)
                out.append("%sv_%s := %s" % (pad, nm, e))
                continue
            if isinstance(s, ast.Expr) and isinstance(s.value, ast.Call) and isinstance(s.value.func, ast.Attribute) \
                    and s.value.func.attr == "append" and isinstance(s.value.func.value, ast.Name) and len(s.value.args) == 1:
                nm = s.value.func.value.id
                a = s.value.args[0]
                if self.env.get(nm) == "pairs":
                    if not (isinstance(a, ast.Tuple) and len(a.elts) == 2):
                        raise Unsupported("append of a non-pair")
                    e = "(%s, %s)" % (self.E(a.elts[0]), self.E(a.elts[1]))
                    if self.ty(a.elts[0]) != "ints" or self.ty(a.elts[1]) != "ints":
                        raise Unsupported("pair of non-lists")
                elif self.env.get(nm) == "ints2":
                    e = self.E(a)
                    if self.ty(a) != "ints":
                        raise Unsupported("append type")
                else:
                    raise Unsupported("append to " + str(self.env.get(nm)))
                out += [pad + l for l in self.pre]
                self.pre = []
                out.append("%sv_%s := v_%s ++ [%s]" % (pad, nm, nm, e))
                continue
            if isinstance(s, ast.For) and not s.orelse:
                it_t = self.ty(s.iter)
                if isinstance(s.target, ast.Name) and it_t == "ints":
                    out.append("%sfor v_%s in %s do" % (pad, s.target.id, self.E(s.iter)))
                    self.env[s.target.id] = "int"
                    out += self.S(s.body, ind + 1, decl)
                    continue
                if isinstance(s.target, ast.Tuple) and len(s.target.elts) == 2 and it_t == "pairs":
                    q = self.fresh()
                    a, b = s.target.elts[0].id, s.target.elts[1].id
                    out.append("%sfor %s in %s do" % (pad, q, self.E(s.iter)))
                    out.append("%s  let v_%s : List Int := %s.1" % (pad, a, q))
                    out.append("%s  let v_%s : List Int := %s.2" % (pad, b, q))
                    self.env[a] = "ints"
                    self.env[b] = "ints"
                    out += self.S(s.body, ind + 1, decl)
                    continue
                raise Unsupported("for form")
            raise Unsupported("statement " + type(s).__name__)
        return out

    def locals_(self, body):
        found = {}
        appended_pairs = set()
        for n in ast.walk(ast.Module(body=body, type_ignores=[])):
            if isinstance(n, ast.Call) and isinstance(n.func, ast.Attribute) and n.func.attr == "append" and isinstance(n.func.value, ast.Name) \
                    and len(n.args) == 1 and isinstance(n.args[0], ast.Tuple):
                appended_pairs.add(n.func.value.id)

        def walk(b):
            for s in b:
                if isinstance(s, ast.Assign) and len(s.targets) == 1 and isinstance(s.targets[0], ast.Name):
                    nm = s.targets[0].id
                    if isinstance(s.value, ast.List) and not s.value.elts:
                        t = "pairs" if nm in appended_pairs else "ints2"
                    else:
                        save = self.pre
                        self.pre = []
                        t = self.ty(s.value)
                        self.pre = save
                    if found.setdefault(nm, t) != t:
                        raise Unsupported("variable %s has two types" % nm)
                    self.env[nm] = t
                elif isinstance(s, ast.For):
                    if isinstance(s.target, ast.Name):
                        self.env[s.target.id] = "int"
                    elif isinstance(s.target, ast.Tuple):
                        for e in s.target.elts:
                            self.env[e.id] = "ints"
                    walk(s.body)
        walk(body)
        return found

    def render(self, body):
        params = list(self.env.items())
        locs = self.locals_(body)
        for r in self.results:
            if r not in locs:
                raise Unsupported("result %s is not defined by the sliced statements" % r)
        rty = " × ".join(LEAN_TY[locs[r]] for r in self.results)
        lines = ["def %s %s : Option (%s) := do" % (self.name, " ".join("(v_%s : %s)" % (p, LEAN_TY[t]) for p, t in params), rty)]
        for nm, t in locs.items():
            lines.append("  let mut v_%s : %s := []" % (nm, LEAN_TY[t]))
        lines += self.S(body, 1, set(locs))
        lines.append("  return (%s)" % ", ".join("v_" + r for r in self.results))
        return "\n".join(lines)


HEADER = '''import Cpl.Py
/-! GENERATED by tools/py2lean_frag.py from /repo/cellpylib (the block-partition construction inside evolve_block and
evolve2d_block) on every run. Do not edit. `Option`: `none` = the Python code raised. -/

namespace Cpl

/-- `list(range(a, b, s))` for a positive step (`[]` otherwise: the fragments only use positive steps). -/
def pyRange (a b s : Int) : List Int :=
  if s ≤ 0 ∨ b ≤ a then [] else (List.range (((b - a + s - 1) / s).toNat)).map fun (i : Nat) => a + (i : Int) * s

end Cpl

namespace Cpl.Gen.Blocks
open Cpl
'''


def find_fn(tree, name):
    for n in tree.body:
        if isinstance(n, ast.FunctionDef) and n.name == name:
            return n
    raise Unsupported("function %s not found" % name)


def main():
    ap = argparse.ArgumentParser()
    ap.add_argument("--repo", default="/repo")
    ap.add_argument("--out", required=True)
    a = ap.parse_args()
    parts = [HEADER]
    status = {}

    def dump(src):
        return ast.dump(ast.parse(src, mode="eval").body)

    targets = [
        ("blockIndices1", "ca_functions.py", "evolve_block", {"N": "int", "block_size": "int"},
         {dump("len(initial_conditions)"): "N", dump("block_size"): "block_size", dump("cols"): "N"}),
        ("blockIndices2", "ca_functions2d.py", "evolve2d_block", {"rows": "int", "cols": "int", "b0": "int", "b1": "int"},
         {dump("rows"): "rows", dump("cols"): "cols", dump("block_size[0]"): "b0", dump("block_size[1]"): "b1"}),
    ]
    targets = [t + (["block_indices_odd", "block_indices_even"], 0) for t in targets]
    targets.append(("nbIndices2", "ca_functions2d.py", "_get_neighbourhood_indices",
                    {"rows": "int", "cols": "int", "r": "int", "row": "int", "col": "int"},
                    {dump(x): x for x in ("rows", "cols", "r", "row", "col")}, ["row_indices", "col_indices"], 2))
    for (lean, f, fname, params, subst, results, descend) in targets:
        try:
            tree = ast.parse(open(os.path.join(a.repo, "cellpylib", f)).read())
            fn = find_fn(tree, fname)
            scope = fn
            for _ in range(descend):          # the body of the innermost of `descend` nested for loops (loop variables = parameters)
                loops = [x for x in scope.body if isinstance(x, ast.For)]
                if len(loops) != 1:
                    raise Unsupported("expected exactly one for loop at this level of " + fname)
                scope = loops[0]
            body = slice_body(scope, results, subst)
            # the slice must not depend on anything but the declared parameters
            frag = Frag(lean, params, subst, results)
            text = frag.render(body)
            parts.append("/-- The statements of `%s` (%s) that build %s, translated. -/\n%s" % (fname, f, " / ".join("`%s`" % r for r in results), text))
            status[lean] = "translated"
        except Unsupported as e:
            status[lean] = "untranslated: %s" % e
            parts.append("-- %s: UNTRANSLATED (%s)" % (lean, e))
        except Exception as e:  # noqa
            status[lean] = "untranslated: %s: %s" % (type(e).__name__, e)
            parts.append("-- %s: UNTRANSLATED (%s)" % (lean, e))
    parts.append("def translated : List String := [%s]" % ", ".join('"%s"' % k for k, v in status.items() if v == "translated"))
    parts.append("end Cpl.Gen.Blocks")
    text = "\n\n".join(parts) + "\n"
    os.makedirs(a.out, exist_ok=True)
    path = os.path.join(a.out, "Blocks.lean")
    if (open(path).read() if os.path.exists(path) else None) != text:
        open(path, "w").write(text)
    print("py2lean_frag: " + "; ".join("%s %s" % kv for kv in status.items()))
    sys.exit(0)


if __name__ == "__main__":
    main()
