#!/usr/bin/env python3
"""Typed Python -> Lean translator for the integer / bit-list functions of cellpylib (run on every check).

Translates, statement by statement, the bodies of
    bits_to_int, int_to_bits, binary_rule, nks_rule            (cellpylib/ca_functions.py)
into Lean `do` blocks in the `Option` monad (`none` = the Python code raised) over typed values
(int = `Int`, ints = `List Int`, opt_ints = `Option (List Int)`, rulearg = `Cpl.RuleArg` (an int or a bit list),
str = `String`) and writes lean/Cpl/Gen/Bits.lean. `lean/Cpl/Ties/C07.lean` proves the result equal to the hand model.

Supported subset: assignments and augmented assignments to locals, if/else, `assert`, `return`,
`for i, x in enumerate(seq[::-1])`; integer expressions with + - * , `2 ** e`, `1 << e`, `len(x)`, `x[e]` (Python indexing,
IndexError = none), calls to the sibling functions, `a.dot(b)`; conditions `x is None`, `==` on ints and on a string
parameter against a literal, `isinstance(rule, (list, np.ndarray))`, truthiness of an int. Primitives recognised by shape
(their meaning is part of the trusted base, validated through the correspondence): `list(map(int, bin(n)[2:]))` = binary
digits, `np.pad(l, (w, 0), 'constant')` = left padding (ValueError for negative w), `ndarray.dot` = integer dot product.
Anything else: the function is reported `untranslated` and its tie does not build.
"""
import argparse
import ast
import os
import sys


class Unsupported(Exception):
    pass


LEAN_TY = {"int": "Int", "ints": "List Int", "opt_ints": "Option (List Int)", "rulearg": "RuleArg", "str": "String"}

# function -> (lean name, parameter types, result type)
SIGS = {
    "bits_to_int": ("bitsToInt", {"bits": "ints"}, "int"),
    "int_to_bits": ("intToBits", {"num": "int", "num_digits": "int"}, "ints"),
    "binary_rule": ("binaryRule", {"neighbourhood": "ints", "rule": "rulearg", "scheme": "str", "powers_of_two": "opt_ints"}, "int"),
    "nks_rule": ("nksRule", {"neighbourhood": "ints", "rule": "rulearg"}, "int"),
}
SIGS.update({
    # a binary string is the list of its digits; the returned ''.join(str(x) ...) likewise
    "binary_derivative": ("binaryDerivative", {"string": "ints"}, "ints"),
    "cyclic_binary_derivative": ("cyclicBinaryDerivative", {"string": "ints"}, "ints"),
})
GROUPS = [
    ("Bits.lean", "ca_functions.py", "Cpl.Gen.Bits", ["bits_to_int", "int_to_bits", "binary_rule", "nks_rule"]),
    ("Bien.lean", "bien.py", "Cpl.Gen.Bien", ["binary_derivative", "cyclic_binary_derivative"]),
]


class Fn:
    def __init__(self, node, done):
        self.node = node
        self.name, self.ptypes, self.rtype = SIGS[node.name]
        self.env = dict(self.ptypes)     # name -> type
        self.done = done                 # python names of already translated siblings
        self.k = 0
        self.pre = []                    # hoisted monadic binds for the statement being translated

    def fresh(self):
        self.k += 1
        return "t_%d" % self.k

    # ---- types
    def ty(self, n):
        if isinstance(n, ast.Name):
            if n.id not in self.env:
                raise Unsupported("unknown name " + n.id)
            return self.env[n.id]
        if isinstance(n, ast.Constant):
            if isinstance(n.value, bool) or not isinstance(n.value, (int, str)):
                raise Unsupported("constant %r" % (n.value,))
            return "int" if isinstance(n.value, int) else "str"
        if isinstance(n, (ast.BinOp, ast.UnaryOp)):
            return "int"
        if isinstance(n, ast.List) and not n.elts:
            return "ints"
        if isinstance(n, ast.Subscript):
            return "int"
        if isinstance(n, ast.Call):
            f = n.func
            if isinstance(f, ast.Name) and f.id in ("len", "int"):
                return "int"
            if self.is_join(n):
                return "ints"
            if isinstance(f, ast.Name) and f.id in SIGS:
                return SIGS[f.id][2]
            if isinstance(f, ast.Attribute) and f.attr == "dot":
                return "int"
            if self.is_bin_digits(n) or self.is_pad(n):
                return "ints"
        raise Unsupported("type of " + ast.dump(n)[:80])

    # ---- recognised primitives
    def is_bin_digits(self, n):
        # list(map(int, bin(x)[2:]))
        try:
            return (isinstance(n, ast.Call) and n.func.id == "list" and isinstance(n.args[0], ast.Call)
                    and n.args[0].func.id == "map" and n.args[0].args[0].id == "int"
                    and isinstance(n.args[0].args[1], ast.Subscript) and n.args[0].args[1].value.func.id == "bin"
                    and isinstance(n.args[0].args[1].slice, ast.Slice) and n.args[0].args[1].slice.lower.value == 2
                    and n.args[0].args[1].slice.upper is None and n.args[0].args[1].slice.step is None)
        except AttributeError:
            return False

    def is_pad(self, n):
        # np.pad(l, (w, 0), 'constant')
        try:
            return (isinstance(n, ast.Call) and n.func.attr == "pad" and n.func.value.id == "np" and len(n.args) == 3
                    and isinstance(n.args[1], ast.Tuple) and len(n.args[1].elts) == 2
                    and isinstance(n.args[1].elts[1], ast.Constant) and n.args[1].elts[1].value == 0
                    and n.args[2].value == "constant" and not n.keywords)
        except AttributeError:
            return False

    def is_join(self, n):
        # ''.join([str(x) for x in result])  on a list of digit values: the digit string, i.e. the list itself
        try:
            lc = n.args[0]
            return (isinstance(n, ast.Call) and n.func.attr == "join" and n.func.value.value == "" and len(n.args) == 1
                    and isinstance(lc, ast.ListComp) and len(lc.generators) == 1 and not lc.generators[0].ifs
                    and lc.elt.func.id == "str" and lc.elt.args[0].id == lc.generators[0].target.id
                    and self.ty(lc.generators[0].iter) == "ints")
        except AttributeError:
            return False

    # ---- expressions (pure text; monadic sub-expressions are hoisted into self.pre)
    def E(self, n):
        if isinstance(n, ast.Constant):
            if isinstance(n.value, bool):
                raise Unsupported("bool constant")
            if isinstance(n.value, int):
                return "(%d : Int)" % n.value
            if isinstance(n.value, str):
                return '"%s"' % n.value
            raise Unsupported("constant")
        if isinstance(n, ast.Name):
            self.ty(n)
            return "v_" + n.id
        if isinstance(n, ast.List) and not n.elts:
            return "([] : List Int)"
        if isinstance(n, ast.UnaryOp) and isinstance(n.op, ast.USub):
            return "(-%s)" % self.E(n.operand)
        if isinstance(n, ast.BinOp):
            l, r = n.left, n.right
            if isinstance(n.op, ast.Pow):
                if isinstance(l, ast.Constant) and l.value == 2:
                    return "((2 : Int) ^ %s.toNat)" % self.E(r)
                raise Unsupported("power with a base other than 2")
            if isinstance(n.op, ast.LShift):
                if isinstance(l, ast.Constant) and l.value == 1:
                    return "(((1 <<< %s.toNat : Nat)) : Int)" % self.E(r)
                raise Unsupported("shift of something other than 1")
            if isinstance(n.op, ast.BitXor):
                if self.ty(l) != "int" or self.ty(r) != "int":
                    raise Unsupported("xor on non-integers")
                return "(Cpl.ixor %s %s)" % (self.E(l), self.E(r))
            op = {ast.Add: "+", ast.Sub: "-", ast.Mult: "*"}.get(type(n.op))
            if not op:
                raise Unsupported("operator " + type(n.op).__name__)
            if self.ty(l) != "int" or self.ty(r) != "int":
                raise Unsupported("arithmetic on non-integers")
            return "(%s %s %s)" % (self.E(l), op, self.E(r))
        if isinstance(n, ast.Subscript):
            if self.ty(n.value) != "ints" or isinstance(n.slice, ast.Slice):
                raise Unsupported("subscript form")
            t = self.fresh()
            self.pre.append("let %s ← (Py.getIdx %s %s).toOption" % (t, self.E(n.value), self.E(n.slice)))
            return t
        if isinstance(n, ast.Call):
            f = n.func
            if isinstance(f, ast.Name) and f.id == "int" and len(n.args) == 1 and self.ty(n.args[0]) == "int":
                return self.E(n.args[0])          # int(ch) on a digit character: its value
            if isinstance(f, ast.Name) and f.id == "len" and len(n.args) == 1:
                if self.ty(n.args[0]) != "ints":
                    raise Unsupported("len of a non-list")
                return "(%s.length : Int)" % self.E(n.args[0])
            if isinstance(f, ast.Name) and f.id in SIGS:
                if f.id not in self.done:
                    raise Unsupported("call to untranslated " + f.id)
                lean, ptypes, _ = SIGS[f.id]
                names = list(ptypes)
                args = {}
                for i, a in enumerate(n.args):
                    args[names[i]] = a
                for kw in n.keywords:
                    args[kw.arg] = kw.value
                parts = []
                for nm in names:
                    if nm in args:
                        a = args[nm]
                        want = ptypes[nm]
                        if want == "opt_ints":
                            parts.append("(some %s)" % self.E(a) if self.ty(a) == "ints" else self.E(a))
                        elif want == "rulearg" and self.ty(a) == "int":
                            parts.append("(RuleArg.num %s.toNat)" % self.E(a))
                        elif want == "rulearg" and self.ty(a) == "ints":
                            parts.append("(RuleArg.bits %s)" % self.E(a))
                        else:
                            if self.ty(a) != want:
                                raise Unsupported("argument type %s for %s" % (self.ty(a), nm))
                            parts.append(self.E(a))
                    else:
                        parts.append({"str": '""', "opt_ints": "none"}.get(ptypes[nm]) or self._missing(nm))
                t = self.fresh()
                self.pre.append("let %s ← %s %s" % (t, lean, " ".join(parts)))
                return t
            if isinstance(f, ast.Attribute) and f.attr == "dot" and len(n.args) == 1:
                if self.ty(f.value) != "ints" or self.ty(n.args[0]) != "ints":
                    raise Unsupported("dot of non-lists")
                return "(Cpl.dot %s %s)" % (self.E(f.value), self.E(n.args[0]))
            if self.is_join(n):
                return self.E(n.args[0].generators[0].iter)
            if self.is_bin_digits(n):
                x = n.args[0].args[1].value.args[0]
                return "((Py.binDigits %s.toNat).map Int.ofNat)" % self.E(x)
            if self.is_pad(n):
                t = self.fresh()
                self.pre.append("let %s ← Cpl.padLeftE %s %s" % (t, self.E(n.args[0]), self.E(n.args[1].elts[0])))
                return t
        raise Unsupported("expression " + ast.dump(n)[:80])

    def _missing(self, nm):
        raise Unsupported("missing argument " + nm)

    def B(self, n):
        if isinstance(n, ast.Compare) and len(n.ops) == 1:
            op, l, r = n.ops[0], n.left, n.comparators[0]
            if isinstance(op, (ast.Eq, ast.NotEq)):
                tl, tr = self.ty(l), self.ty(r)
                if tl != tr or tl not in ("int", "str"):
                    raise Unsupported("comparison of %s with %s" % (tl, tr))
                return "(%s %s %s)" % (self.E(l), "==" if isinstance(op, ast.Eq) else "!=", self.E(r))
            sym = {ast.Lt: "<", ast.LtE: "≤", ast.Gt: ">", ast.GtE: "≥"}.get(type(op))
            if sym and self.ty(l) == "int" and self.ty(r) == "int":
                return "(decide (%s %s %s))" % (self.E(l), sym, self.E(r))
            raise Unsupported("comparison " + type(op).__name__)
        if isinstance(n, ast.UnaryOp) and isinstance(n.op, ast.Not):
            return "(!%s)" % self.B(n.operand)
        if isinstance(n, ast.BoolOp):
            return "(" + (" && " if isinstance(n.op, ast.And) else " || ").join(self.B(v) for v in n.values) + ")"
        if self.ty(n) == "int":
            return "(%s != 0)" % self.E(n)
        raise Unsupported("condition " + ast.dump(n)[:80])

    # ---- statements
    def flush(self, pad, out):
        out += [pad + l for l in self.pre]
        self.pre = []

    def S(self, body, ind, declared):
        out = []
        pad = "  " * ind
        for s in body:
            if isinstance(s, ast.Expr) and isinstance(s.value, ast.Constant):
                continue
            if isinstance(s, ast.Assign) and len(s.targets) == 1 and isinstance(s.targets[0], ast.Name):
                nm = s.targets[0].id
                e = self.E(s.value)
                t = self.ty(s.value)
                self.flush(pad, out)
                if nm in declared:
                    if self.env[nm] != t:
                        raise Unsupported("variable %s changes type" % nm)
                    out.append("%sv_%s := %s" % (pad, nm, e))
                else:
                    raise Unsupported("undeclared local " + nm)
                continue
            if isinstance(s, ast.AugAssign) and isinstance(s.target, ast.Name):
                op = {ast.Add: "+", ast.Sub: "-", ast.Mult: "*"}.get(type(s.op))
                if not op or self.env.get(s.target.id) != "int":
                    raise Unsupported("augmented assignment form")
                e = self.E(s.value)
                self.flush(pad, out)
                out.append("%sv_%s := v_%s %s %s" % (pad, s.target.id, s.target.id, op, e))
                continue
            if isinstance(s, ast.Break):
                out.append(pad + "break")
                continue
            if isinstance(s, ast.Expr) and isinstance(s.value, ast.Call) and isinstance(s.value.func, ast.Attribute) \
                    and s.value.func.attr == "append" and isinstance(s.value.func.value, ast.Name) \
                    and self.env.get(s.value.func.value.id) == "ints" and s.value.func.value.id in declared \
                    and len(s.value.args) == 1:
                e = self.E(s.value.args[0])
                if self.ty(s.value.args[0]) != "int":
                    raise Unsupported("append of a non-integer")
                self.flush(pad, out)
                out.append("%sv_%s := v_%s ++ [%s]" % (pad, s.value.func.value.id, s.value.func.value.id, e))
                continue
            if isinstance(s, ast.Assert):
                b = self.B(s.test)
                self.flush(pad, out)
                out.append("%sif !%s then" % (pad, b))
                out.append("%s  none" % pad)
                continue
            if isinstance(s, ast.Return):
                e = self.E(s.value)
                if self.ty(s.value) != self.rtype:
                    raise Unsupported("return type")
                self.flush(pad, out)
                out.append("%sreturn %s" % (pad, e))
                continue
            if isinstance(s, ast.If):
                t = s.test
                # `x is None` on an optional list parameter: a match that gives the list its type in the else branch
                if isinstance(t, ast.Compare) and len(t.ops) == 1 and isinstance(t.ops[0], (ast.Is, ast.IsNot)) \
                        and isinstance(t.comparators[0], ast.Constant) and t.comparators[0].value is None \
                        and isinstance(t.left, ast.Name) and self.env.get(t.left.id) == "opt_ints":
                    nm = t.left.id
                    none_body, some_body = (s.body, s.orelse) if isinstance(t.ops[0], ast.Is) else (s.orelse, s.body)
                    out.append("%smatch v_%s with" % (pad, nm))
                    out.append("%s| none =>" % pad)
                    out += self.S(none_body, ind + 1, declared) or [pad + "  pure ()"]
                    out.append("%s| some v_%s =>" % (pad, nm))
                    self.env[nm] = "ints"
                    out += self.S(some_body, ind + 1, declared) or [pad + "  pure ()"]
                    self.env[nm] = "opt_ints"
                    continue
                # isinstance(rule, (list, np.ndarray)) on the rule argument
                if isinstance(t, ast.Call) and isinstance(t.func, ast.Name) and t.func.id == "isinstance" and len(t.args) == 2 \
                        and isinstance(t.args[0], ast.Name) and self.env.get(t.args[0].id) == "rulearg" \
                        and isinstance(t.args[1], ast.Tuple) \
                        and sorted(ast.unparse(e) for e in t.args[1].elts) == ["list", "np.ndarray"]:
                    nm = t.args[0].id
                    out.append("%smatch v_%s with" % (pad, nm))
                    out.append("%s| RuleArg.bits v_%s =>" % (pad, nm))
                    self.env[nm] = "ints"
                    out += self.S(s.body, ind + 1, declared) or [pad + "  pure ()"]
                    out.append("%s| RuleArg.num k_%s =>" % (pad, nm))
                    out.append("%s  let v_%s : Int := (k_%s : Int)" % (pad, nm, nm))
                    self.env[nm] = "int"
                    out += self.S(s.orelse, ind + 1, declared) or [pad + "  pure ()"]
                    self.env[nm] = "rulearg"
                    continue
                b = self.B(t)
                self.flush(pad, out)
                out.append("%sif %s then" % (pad, b))
                out += self.S(s.body, ind + 1, declared) or [pad + "  pure ()"]
                if s.orelse:
                    out.append(pad + "else")
                    out += self.S(s.orelse, ind + 1, declared) or [pad + "  pure ()"]
                continue
            if isinstance(s, ast.For) and not s.orelse:
                # for i, x in enumerate(seq[::-1])
                it = s.iter
                if isinstance(s.target, ast.Tuple) and len(s.target.elts) == 2 and isinstance(it, ast.Call) \
                        and isinstance(it.func, ast.Name) and it.func.id == "enumerate" and len(it.args) == 1:
                    seq = it.args[0]
                    rev = False
                    if isinstance(seq, ast.Subscript) and isinstance(seq.slice, ast.Slice) and seq.slice.lower is None \
                            and seq.slice.upper is None and isinstance(seq.slice.step, ast.UnaryOp) \
                            and isinstance(seq.slice.step.op, ast.USub) and seq.slice.step.operand.value == 1:
                        rev = True
                        seq = seq.value
                    if self.ty(seq) != "ints":
                        raise Unsupported("enumerate over a non-list")
                    i, x = s.target.elts[0].id, s.target.elts[1].id
                    q = self.fresh()
                    out.append("%sfor %s in (%s%s).zipIdx do" % (pad, q, self.E(seq), ".reverse" if rev else ""))
                    out.append("%s  let v_%s : Int := (%s.2 : Int)" % (pad, i, q))
                    out.append("%s  let v_%s : Int := %s.1" % (pad, x, q))
                    self.env[i] = "int"
                    self.env[x] = "int"
                    out += self.S(s.body, ind + 1, declared)
                    continue
                raise Unsupported("for form")
            raise Unsupported("statement " + type(s).__name__)
        return out

    def locals_(self):
        """Locals and their types, from their first assignment (all assignments must agree)."""
        found = {}

        def walk(body):
            for s in body:
                if isinstance(s, ast.Assign) and len(s.targets) == 1 and isinstance(s.targets[0], ast.Name):
                    nm = s.targets[0].id
                    if nm in self.ptypes:
                        raise Unsupported("assignment to parameter " + nm)
                    save = self.pre
                    self.pre = []
                    try:
                        t = self.ty(s.value)
                    finally:
                        self.pre = save
                    if found.setdefault(nm, t) != t:
                        raise Unsupported("variable %s has two types" % nm)
                    self.env[nm] = t
                elif isinstance(s, ast.If):
                    # type the branches under the refinements the translation will apply
                    t = s.test
                    ref = None
                    if isinstance(t, ast.Compare) and isinstance(t.left, ast.Name) and self.env.get(t.left.id) == "opt_ints":
                        ref = (t.left.id, "ints")
                    if isinstance(t, ast.Call) and isinstance(t.func, ast.Name) and t.func.id == "isinstance" \
                            and isinstance(t.args[0], ast.Name) and self.env.get(t.args[0].id) == "rulearg":
                        ref = (t.args[0].id, None)
                    if ref and ref[1] == "ints":
                        old = self.env[ref[0]]
                        is_none_first = isinstance(t.ops[0], ast.Is)
                        self.env[ref[0]] = old if is_none_first else "ints"
                        walk(s.body)
                        self.env[ref[0]] = "ints" if is_none_first else old
                        walk(s.orelse)
                        self.env[ref[0]] = old
                    elif ref:
                        old = self.env[ref[0]]
                        self.env[ref[0]] = "ints"
                        walk(s.body)
                        self.env[ref[0]] = "int"
                        walk(s.orelse)
                        self.env[ref[0]] = old
                    else:
                        walk(s.body)
                        walk(s.orelse)
                elif isinstance(s, ast.For):
                    if isinstance(s.target, ast.Tuple):
                        for e in s.target.elts:
                            self.env[e.id] = "int"
                    walk(s.body)
        walk(self.node.body)
        return found

    def render(self):
        params = [a.arg for a in self.node.args.args]
        if params != list(self.ptypes):
            raise Unsupported("parameters %s, expected %s" % (params, list(self.ptypes)))
        locs = self.locals_()
        init = {"int": "(0 : Int)", "ints": "([] : List Int)"}
        lines = ["def %s %s : Option (%s) := do" % (
            self.name, " ".join("(v_%s : %s)" % (p, LEAN_TY[t]) for p, t in self.ptypes.items()), LEAN_TY[self.rtype])]
        for nm, t in locs.items():
            if t not in init:
                raise Unsupported("local of type " + t)
            lines.append("  let mut v_%s : %s := %s" % (nm, LEAN_TY[t], init[t]))
        lines += self.S(self.node.body, 1, set(locs))
        if not isinstance(self.node.body[-1], ast.Return):
            lines.append("  none")
        return "\n".join(lines)


HEADER = '''import Cpl.Py
import Cpl.Model.Bits
/-! GENERATED by tools/py2lean_typed.py from /repo/cellpylib/ca_functions.py on every run. Do not edit.
`Option`: `none` = the Python code raised. `RuleArg`, `dot` are the data type / NumPy primitive of Cpl/Model/Bits.lean. -/

namespace Cpl

/-- `np.pad(l, (w, 0), 'constant')`: `w` zeros in front; a negative width makes NumPy raise `ValueError`. -/
def padLeftE (l : List Int) (w : Int) : Option (List Int) :=
  if w < 0 then none else some (List.replicate w.toNat 0 ++ l)

end Cpl

namespace Cpl.Gen.Bits
open Cpl
'''


def main():
    ap = argparse.ArgumentParser()
    ap.add_argument("--repo", default="/repo")
    ap.add_argument("--out", required=True)
    a = ap.parse_args()
    status = {}
    os.makedirs(a.out, exist_ok=True)
    for (fname, src, ns, order) in GROUPS:
        parts = [HEADER.replace("Cpl.Gen.Bits", ns).replace("/repo/cellpylib/ca_functions.py", "/repo/cellpylib/" + src)
                 if fname != "Bits.lean" else HEADER]
        if fname != "Bits.lean":
            parts = ["import Cpl.Py\nimport Cpl.Model.Rules\n/-! GENERATED by tools/py2lean_typed.py from /repo/cellpylib/%s on every run. Do not edit.\n"
                     "`Option`: `none` = the Python code raised. A binary string is the list of its digit values; `^` is `Cpl.ixor`. -/\n\n"
                     "namespace %s\nopen Cpl\n" % (src, ns)]
        done = set()
        try:
            tree = ast.parse(open(os.path.join(a.repo, "cellpylib", src)).read())
            defs = {n.name: n for n in tree.body if isinstance(n, ast.FunctionDef)}
        except Exception as e:  # noqa
            defs = {}
        ok = []
        for py in order:
            lean = SIGS[py][0]
            try:
                if py not in defs:
                    raise Unsupported("function not found")
                parts.append("/-- `%s` (%s), translated statement by statement. -/\n%s" % (py, src, Fn(defs[py], done).render()))
                status[lean] = "translated"
                done.add(py)
                ok.append(lean)
            except Unsupported as e:
                status[lean] = "untranslated: %s" % e
                parts.append("-- %s: UNTRANSLATED (%s)" % (lean, e))
            except Exception as e:  # noqa
                status[lean] = "untranslated: %s: %s" % (type(e).__name__, e)
                parts.append("-- %s: UNTRANSLATED (%s)" % (lean, e))
        parts.append("def translated : List String := [%s]" % ", ".join('"%s"' % k for k in ok))
        parts.append("end " + ns)
        text = "\n\n".join(parts) + "\n"
        path = os.path.join(a.out, fname)
        if (open(path).read() if os.path.exists(path) else None) != text:
            open(path, "w").write(text)
    print("py2lean_typed: " + "; ".join("%s %s" % kv for kv in status.items()))
    sys.exit(0)


if __name__ == "__main__":
    main()
