#!/usr/bin/env python3
"""False-alarm test: apply each behaviour-preserving refactor in benign/<id>/patch.diff to /repo, run the property's
quick check (evidence redirected), expect exit 0 and no VIOLATION line, undo the patch.
   tools/benigntest.py [name-substring ...] [--thorough]
The patches were written by independent sub-agents that saw only the property text (see DESIGN.md §18.3); each comes
with the agent's own differential test (equiv.py: original functions embedded verbatim vs the rewritten library)."""
import glob
import json
import os
import subprocess
import sys
import time

V = os.path.dirname(os.path.dirname(os.path.abspath(__file__)))


def sh(cmd, cwd=None, env=None, timeout=7200):
    p = subprocess.run(cmd, cwd=cwd, env=env, stdout=subprocess.PIPE, stderr=subprocess.STDOUT, text=True, timeout=timeout)
    return p.returncode, p.stdout


def main():
    args = [a for a in sys.argv[1:] if not a.startswith("--")]
    tier = "thorough" if "--thorough" in sys.argv else "quick"
    dirs = sorted(d for d in glob.glob(os.path.join(V, "benign", "*")) if os.path.isdir(d))
    if args:
        dirs = [d for d in dirs if any(a in os.path.basename(d) for a in args)]
    rc, o = sh(["git", "-C", "/repo", "status", "--porcelain"])
    if o.strip():
        print("refusing: /repo has uncommitted changes")
        sys.exit(2)
    env = dict(os.environ, VERIF_EVIDENCE_DIR="/tmp/verif_benign_evidence")
    bad = []
    res = {}
    for d in dirs:
        name = os.path.basename(d)
        prop = name.split("-")[0]
        rca, oa = sh(["git", "-C", "/repo", "apply", os.path.join(d, "patch.diff")])
        if rca != 0:
            print("%-10s patch does not apply: %s" % (name, oa[:200]))
            bad.append(name)
            continue
        t0 = time.time()
        try:
            rcq, oq = sh([os.path.join(V, "check"), prop, "--tier", tier], cwd=V, env=env)
        finally:
            sh(["git", "-C", "/repo", "checkout", "--", "."])
        lines = [l for l in oq.splitlines() if l.startswith(("VIOLATION", "NOTE", prop))]
        silent = rcq == 0 and not any(l.startswith("VIOLATION") for l in lines)
        res[name] = dict(rc=rcq, silent=silent, tail=[l[:300] for l in lines[-3:]], s=round(time.time() - t0, 1), tier=tier)
        print("%-10s %s rc=%d %5.1fs  %s" % (name, "silent" if silent else "FALSE-ALARM", rcq, time.time() - t0, lines[-1][:140] if lines else ""))
        if not silent:
            bad.append(name)
    json.dump(res, open(os.path.join(V, "benign", "RESULTS.json"), "w"), indent=1)
    # regenerate lean/Cpl/Gen from the clean tree
    for tool in ("translate.py", "py2lean.py", "py2lean_typed.py", "py2lean_frag.py", "py2lean_comp.py"):
        sh([sys.executable, os.path.join(V, "tools", tool), "--repo", "/repo", "--out", os.path.join(V, "lean", "Cpl", "Gen")])
    print("silent on %d / %d; false alarms: %s" % (len(dirs) - len(bad), len(dirs), bad))
    sys.exit(1 if bad else 0)


if __name__ == "__main__":
    try:
        main()
    finally:
        subprocess.run([sys.executable, os.path.join(os.path.dirname(os.path.abspath(__file__)), "retranslate.py")])
