#!/usr/bin/env python3
"""Source -> Lean translator for the data parts of the model (run on every check).

Reads /repo/cellpylib/{langtons_loop,evoloop,sdsr_loop,sandpile}.py with `ast` and writes
lean/Cpl/Gen/Tables.lean:

  langtonEntries / evoloopEntries : List (Key5 × Int)   -- dict literal in source order, duplicates preserved
  langtonAddRotations / evoloopAddRotations : Bool
  sdsrExtra : List (Key5 × Int)                           -- the assignments self._rule_table[(…)] = v in SDSRLoop.__init__
  sandpileK : Nat                                         -- self._K in Sandpile.__init__

Files are rewritten only when their content changes (keeps `lake build` incremental).
Exit code 0 = translated; 1 = the source no longer has the expected shape (reported as a broken obligation).
"""
import argparse
import ast
import os
import sys


def const_int(node):
    if isinstance(node, ast.Constant) and isinstance(node.value, int) and not isinstance(node.value, bool):
        return node.value
    if isinstance(node, ast.UnaryOp) and isinstance(node.op, ast.USub):
        return -const_int(node.operand)
    raise ValueError("not an int literal: " + ast.dump(node))


def key5(node):
    if not isinstance(node, ast.Tuple) or len(node.elts) != 5:
        raise ValueError("not a 5-tuple key: " + ast.dump(node))
    return tuple(const_int(e) for e in node.elts)


def find_class(tree, name):
    for n in tree.body:
        if isinstance(n, ast.ClassDef) and n.name == name:
            return n
    raise ValueError("class %s not found" % name)


def find_init(cls):
    for n in cls.body:
        if isinstance(n, ast.FunctionDef) and n.name == "__init__":
            return n
    raise ValueError("__init__ not found in " + cls.name)


def super_init_table(cls):
    """(entries, add_rotations) from `super().__init__(rule_table={...}, add_rotations=…)`."""
    init = find_init(cls)
    for node in ast.walk(init):
        if isinstance(node, ast.Call) and isinstance(node.func, ast.Attribute) and node.func.attr == "__init__":
            table = None
            rot = False
            for kw in node.keywords:
                if kw.arg == "rule_table":
                    table = kw.value
                elif kw.arg == "add_rotations":
                    if not isinstance(kw.value, ast.Constant) or not isinstance(kw.value.value, bool):
                        raise ValueError("add_rotations is not a boolean literal")
                    rot = kw.value.value
            if table is None and node.args:
                table = node.args[0]
                if len(node.args) > 1:
                    rot = node.args[1].value
            if not isinstance(table, ast.Dict):
                raise ValueError("rule_table is not a dict literal in " + cls.name)
            entries = [(key5(k), const_int(v)) for k, v in zip(table.keys, table.values)]
            return entries, rot
    raise ValueError("super().__init__ call not found in " + cls.name)


def sdsr_extra(cls):
    init = find_init(cls)
    out = []
    for node in init.body:
        if isinstance(node, ast.Assign) and len(node.targets) == 1 and isinstance(node.targets[0], ast.Subscript):
            tgt = node.targets[0]
            if isinstance(tgt.value, ast.Attribute) and tgt.value.attr == "_rule_table":
                sl = tgt.slice
                out.append((key5(sl), const_int(node.value)))
    return out


def sandpile_k(cls):
    init = find_init(cls)
    for node in ast.walk(init):
        if isinstance(node, ast.Assign) and len(node.targets) == 1 and isinstance(node.targets[0], ast.Attribute) \
                and node.targets[0].attr == "_K":
            return const_int(node.value)
    raise ValueError("self._K assignment not found")


RUNTIME = r"""
import sys, json, inspect
sys.path.insert(0, sys.argv[1])
import cellpylib as cpl
from cellpylib.ctrbl_rule import CTRBLRule
captured = {}
orig = CTRBLRule.__init__
sig = inspect.signature(orig)
def wrap(self, *args, **kwargs):
    b = sig.bind(self, *args, **kwargs)
    b.apply_defaults()
    table = b.arguments.get("rule_table")
    rot = b.arguments.get("add_rotations")
    entries = [[list(int(x) for x in k), int(v)] for k, v in table.items()]
    orig(self, *args, **kwargs)
    captured.setdefault(type(self).__name__, []).append(dict(entries=entries, rot=bool(rot), after=dict(self._rule_table)))
CTRBLRule.__init__ = wrap
out = {}
try:
    cpl.LangtonsLoop(); out["lang"] = dict(entries=captured["LangtonsLoop"][0]["entries"], rot=captured["LangtonsLoop"][0]["rot"])
except Exception as e:
    out["lang_err"] = repr(e)
try:
    cpl.Evoloop(); out["evo"] = dict(entries=captured["Evoloop"][0]["entries"], rot=captured["Evoloop"][0]["rot"])
except Exception as e:
    out["evo_err"] = repr(e)
try:
    o = cpl.SDSRLoop(); base = captured["SDSRLoop"][0]["after"]
    out["extra"] = [[list(int(x) for x in k), int(v)] for k, v in o._rule_table.items() if k not in base or base[k] != v]
except Exception as e:
    out["extra_err"] = repr(e)
try:
    out["K"] = int(cpl.Sandpile(3, 3)._K)
except Exception as e:
    out["K_err"] = repr(e)
print(json.dumps(out))
"""


def runtime_tables(repo):
    """Fallback when the source no longer has the literal shape the AST reader expects: run the constructors of the
    checkout's own classes and capture the table handed to `CTRBLRule.__init__`, its `add_rotations` flag, the entries
    `SDSRLoop.__init__` sets afterwards, and `Sandpile._K`. (Duplicate keys of a dict literal are not visible this way.)"""
    import json
    import subprocess
    p = subprocess.run([sys.executable, "-W", "ignore", "-c", RUNTIME, repo], stdout=subprocess.PIPE, stderr=subprocess.PIPE,
                       text=True, timeout=300)
    if p.returncode != 0:
        raise ValueError("runtime extraction failed: " + p.stderr[-300:])
    return json.loads(p.stdout.strip().splitlines()[-1])


def lean_int(i):
    return str(i) if i >= 0 else "(%d)" % i


def lean_entries(name, entries):
    lines = ["def %s : List (Key5 × Int) := [" % name]
    body = []
    for (k, v) in entries:
        body.append("  ((%s), %s)" % (", ".join(lean_int(x) for x in k), lean_int(v)))
    lines.append(",\n".join(body))
    lines.append("]")
    return "\n".join(lines)


def main():
    ap = argparse.ArgumentParser()
    ap.add_argument("--repo", default="/repo")
    ap.add_argument("--out", required=True)
    a = ap.parse_args()
    src = lambda f: ast.parse(open(os.path.join(a.repo, "cellpylib", f)).read())
    how = {}
    rt = {}

    def piece(name, ast_fn, rt_fn):
        try:
            v = ast_fn()
            how[name] = "ast"
            return v
        except Exception as e:  # noqa
            if not rt:
                rt.update(runtime_tables(a.repo))
            how[name] = "runtime (source shape not recognised by the AST reader: %s)" % str(e)[:80]
            return rt_fn()

    def rt_table(key):
        if key not in rt:
            raise ValueError(rt.get(key + "_err", "no runtime value"))
        return [(tuple(k), v) for k, v in rt[key]["entries"]], rt[key]["rot"]

    def rt_extra():
        if "extra" not in rt:
            raise ValueError(rt.get("extra_err", "no runtime value"))
        return [(tuple(k), v) for k, v in rt["extra"]]

    def ast_extra():
        out = sdsr_extra(find_class(src("sdsr_loop.py"), "SDSRLoop"))
        # the literal reader only sees `self._rule_table[(…literals…)] = v` statements directly in __init__: make sure
        # nothing else in __init__ writes the table
        init = find_init(find_class(src("sdsr_loop.py"), "SDSRLoop"))
        writes = sum(1 for n in ast.walk(init) if isinstance(n, ast.Subscript) and isinstance(n.ctx, ast.Store)
                     and isinstance(n.value, ast.Attribute) and n.value.attr == "_rule_table")
        calls = sum(1 for n in ast.walk(init) if isinstance(n, ast.Call) and isinstance(n.func, ast.Attribute)
                    and isinstance(n.func.value, ast.Attribute) and n.func.value.attr == "_rule_table")
        if writes != len(out) or calls:
            raise ValueError("SDSRLoop.__init__ writes the table in a way the literal reader does not follow")
        return out

    try:
        lang, lang_rot = piece("langton", lambda: super_init_table(find_class(src("langtons_loop.py"), "LangtonsLoop")), lambda: rt_table("lang"))
        evo, evo_rot = piece("evoloop", lambda: super_init_table(find_class(src("evoloop.py"), "Evoloop")), lambda: rt_table("evo"))
        extra = piece("sdsr", ast_extra, rt_extra)
        K = piece("K", lambda: sandpile_k(find_class(src("sandpile.py"), "Sandpile")), lambda: rt["K"])
    except Exception as e:  # noqa
        print("translator: source shape not recognised: %s" % e)
        sys.exit(1)
    text = "\n\n".join([
        "/-! GENERATED by tools/translate.py from /repo/cellpylib on every run. Do not edit. -/",
        "namespace Cpl.Gen",
        "/-- (centre, top, right, bottom, left) -/\nabbrev Key5 := Int × Int × Int × Int × Int",
        lean_entries("langtonEntries", lang),
        "def langtonAddRotations : Bool := %s" % ("true" if lang_rot else "false"),
        lean_entries("evoloopEntries", evo),
        "def evoloopAddRotations : Bool := %s" % ("true" if evo_rot else "false"),
        lean_entries("sdsrExtra", extra),
        "def sandpileK : Nat := %d" % K,
        "end Cpl.Gen",
    ]) + "\n"
    os.makedirs(a.out, exist_ok=True)
    path = os.path.join(a.out, "Tables.lean")
    old = open(path).read() if os.path.exists(path) else None
    if old != text:
        open(path, "w").write(text)
        print("translator: wrote %s (langton %d entries, evoloop %d, sdsr extra %d, K=%d)" % (path, len(lang), len(evo), len(extra), K))
    else:
        print("translator: up to date (langton %d entries, evoloop %d, sdsr extra %d, K=%d)" % (len(lang), len(evo), len(extra), K))
    if any(v != "ast" for v in how.values()):
        print("translator: " + "; ".join("%s via %s" % kv for kv in how.items() if kv[1] != "ast"))


if __name__ == "__main__":
    main()
