#!/usr/bin/env python3
"""Regenerates MANIFEST.json from tools/manifest_table.json (one entry per claimed property)."""
import json, os
V = os.path.dirname(os.path.dirname(os.path.abspath(__file__)))
tbl = json.load(open(os.path.join(V, "tools", "manifest_table.json")))
props = [json.loads(l) for l in open(os.path.join(V, "properties.jsonl"))]
ids = [p["id"] for p in props]
base = json.load(open("/root/.vp/BASELINE.json")) if os.path.exists("/root/.vp/BASELINE.json") else {}
checks = []
na = []
for pid in ids:
    e = tbl["claimed"].get(pid)
    if e is None:
        na.append(dict(property_id=pid, reason=tbl["not_applicable"].get(pid, "check not built yet in this round (planned: DESIGN.md section 5); not claimed until its theorems and correspondence exist")))
        continue
    checks.append(dict(
        property_id=pid,
        quick_cmd="./check %s --tier quick" % pid,
        thorough_cmd="./check %s --tier thorough" % pid,
        evidence_file="evidence/%s.json" % pid,
        replay_cmd_template="./check %s --replay {path}" % pid,
        engine="lean4-model+correspondence",
        level_claimed=dict(category="proof", text=e["text"], design_ref=e.get("design_ref", "DESIGN.md section 5 " + pid)),
        level_note=e["note"],
        technique=e.get("technique", "Lean 4 theorems over an executable model of the code; model tied to /repo by a differential correspondence check (Lean driver vs. implementation) and a direct property oracle for the failing-input search"),
    ))
man = dict(
    version=1,
    setup_cmd="/venv/bin/python tools/translate.py --repo /repo --out lean/Cpl/Gen && /venv/bin/python tools/py2lean.py --repo /repo --out lean/Cpl/Gen && /venv/bin/python tools/py2lean_typed.py --repo /repo --out lean/Cpl/Gen && /venv/bin/python tools/py2lean_frag.py --repo /repo --out lean/Cpl/Gen && /venv/bin/python tools/py2lean_comp.py --repo /repo --out lean/Cpl/Gen && cd lean && lake build Cpl driver && (lake build CplExtra || echo 'source ties not re-established on this tree (reported by the checks)')",
    hooks=dict(guard="CELLPYLIB_VERIF",
               enable="none needed: every observation goes through rule / predicate callables and return values; library randomness is substituted inside the harness process",
               baseline_off_cmd="cd /repo && /venv/bin/python -m pytest -ra -q -p no:cacheprovider --timeout=900 --continue-on-collection-errors",
               source_commits=[], add_only=True),
    engines=[dict(name="lean4-model+correspondence", path="lean/ + harness/", serves_properties=[c["property_id"] for c in checks],
                  kind_free_text="Lean 4 library Cpl (executable model + property theorems, kernel-checked, axioms audited per theorem), compiled Lean driver speaking a line protocol, Python harness driving the real cellpylib from /repo in-process and comparing")],
    checks=checks,
    notes=tbl.get("notes", ""),
    not_applicable=na,
)
json.dump(man, open(os.path.join(V, "MANIFEST.json"), "w"), indent=1)
print("claimed:", [c["property_id"] for c in checks], "not claimed:", [n["property_id"] for n in na])
