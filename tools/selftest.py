#!/usr/bin/env python3
"""Self-test: apply each mutants/*.patch to a scratch copy of /repo (never to /repo itself), run the property's
quick check with VERIF_REPO pointing there, expect exit 1.   tools/selftest.py [name-substring] [--suite]"""
import glob
import json
import os
import subprocess
import sys
import time
from concurrent.futures import ThreadPoolExecutor

V = os.path.dirname(os.path.dirname(os.path.abspath(__file__)))
KNOWN_FAIL = {"test_dynamic_timesteps", "test_dynamic_timesteps_memoized", "test_dynamic_timesteps_memoized_recursive", "test_prior_history"}


def sh(cmd, cwd=None, env=None, timeout=7200):
    p = subprocess.run(cmd, cwd=cwd, env=env, shell=isinstance(cmd, str), stdout=subprocess.PIPE, stderr=subprocess.STDOUT, text=True, timeout=timeout)
    return p.returncode, p.stdout


def suite(name, wt):
    rc, o = sh("/venv/bin/python -m pytest -q -p no:cacheprovider --timeout=900 tests 2>&1 | tail -12", cwd=wt)
    failed = set(l.split("::")[-1].split(" ")[0] for l in o.splitlines() if l.startswith("FAILED"))
    summ = [l for l in o.splitlines() if " passed" in l]
    return name, (failed == KNOWN_FAIL and bool(summ) and "161 passed" in summ[-1]), (summ[-1] if summ else o[-200:])


def main():
    args = [a for a in sys.argv[1:] if not a.startswith("--")]
    do_suite = "--suite" in sys.argv
    tier = "thorough" if "--thorough" in sys.argv else "quick"
    pats = sorted(glob.glob(os.path.join(V, "mutants", "*.patch")))
    if args:
        pats = [p for p in pats if any(a in os.path.basename(p) for a in args)]
    results = {}
    wts = {}
    for p in pats:
        name = os.path.basename(p)[:-6]
        prop = name.split("_")[0]
        wt = "/tmp/mut_%s_%d" % (name, os.getpid())
        sh(["git", "-C", "/repo", "worktree", "add", "--detach", wt, "HEAD"])
        rc, o = sh(["git", "apply", p], cwd=wt)
        if rc != 0:
            results[name] = dict(error="patch does not apply: " + o[-200:])
            sh(["git", "-C", "/repo", "worktree", "remove", "--force", wt])
            continue
        wts[name] = wt
        env = dict(os.environ, VERIF_REPO=wt, VERIF_EVIDENCE_DIR="/tmp/verif_selftest_evidence")
        t0 = time.time()
        rc, o = sh(["./check", prop, "--tier", tier], cwd=V, env=env)
        lines = [l for l in o.splitlines() if l.startswith(("VIOLATION", prop + " "))]
        results[name] = dict(prop=prop, rc=rc, detected=(rc == 1), s=round(time.time() - t0, 1), tail=lines[-2:])
        print("%-36s %s rc=%d %5.1fs  %s" % (name, "DETECTED" if rc == 1 else "MISSED  ", rc, time.time() - t0, lines[-1][:110] if lines else o[-150:].replace("\n", " ")))
        sys.stdout.flush()
    if do_suite:
        with ThreadPoolExecutor(8) as ex:
            for name, ok, summ in ex.map(lambda kv: suite(*kv), wts.items()):
                results[name]["suite_baseline"] = ok
                results[name]["suite"] = summ
                print("suite %-36s %s %s" % (name, "ok" if ok else "CHANGED", summ))
    for wt in wts.values():
        sh(["git", "-C", "/repo", "worktree", "remove", "--force", wt])
    # restore generated tables for the real repo
    for tool in ("translate.py", "py2lean.py", "py2lean_typed.py", "py2lean_frag.py", "py2lean_comp.py"):
        sh(["/venv/bin/python", os.path.join(V, "tools", tool), "--repo", "/repo", "--out", os.path.join(V, "lean", "Cpl", "Gen")])
    json.dump(results, open(os.path.join(V, "mutants", "RESULTS.json"), "w"), indent=1)
    missed = [n for n, r in results.items() if not r.get("detected")]
    print("detected %d / %d; missed: %s" % (len(results) - len(missed), len(results), missed))


if __name__ == "__main__":
    try:
        main()
    finally:
        subprocess.run([sys.executable, os.path.join(os.path.dirname(os.path.abspath(__file__)), "retranslate.py")])
