#!/usr/bin/env python3
"""Generates mutants/*.patch: realistic property-breaking edits of cellpylib (self-test of the checks).
Each mutant is (name, property, file, old, new); the patch is produced in a scratch worktree of /repo HEAD."""
import os
import subprocess
import sys

V = os.path.dirname(os.path.dirname(os.path.abspath(__file__)))
M = [
 ("C01_right_context_short", "C01", "cellpylib/ca_functions.py",
  "arr = np.concatenate((arr[-window_size // 2 + 1:], arr, arr[:window_size // 2]))",
  "arr = np.concatenate((arr[-window_size // 2 + 1:], arr, np.roll(arr, len(arr) < window_size)[:window_size // 2]))"),
 ("C01_dynamic_t_offbyone", "C01", "cellpylib/ca_functions.py",
  "            result = [apply_rule(n, c, t) for c, n in enumerate(neighbourhoods)]",
  "            result = [apply_rule(n, c, t - 1 + (len(array) < 2)) for c, n in enumerate(neighbourhoods)]"),
 ("C02_mask_r_ge_2", "C02", "cellpylib/ca_functions2d.py",
  "        mask_size = np.absolute(r - i)\n",
  "        mask_size = np.absolute(r - i) - (r > 1 and i in (0, 2 * r))\n"),
 ("C02_colwrap_uses_rows", "C02", "cellpylib/ca_functions2d.py",
  "            col_indices = [i - cols if i > (cols - 1) else i for i in col_indices]\n            indices[(row, col)]",
  "            col_indices = [i - rows if i > (cols - 1) else i for i in col_indices]\n            indices[(row, col)]"),
 ("C03_memo_table_module_level", "C03", "cellpylib/ca_functions.py",
  "    cell_indices = list(range(len(initial_conditions)))\n\n    memo_table = {}\n\n    for t in range(1, timesteps):",
  "    cell_indices = list(range(len(initial_conditions)))\n\n    memo_table = _SHARED_MEMO\n\n    for t in range(1, timesteps):"),
 ("C03_rec_key_one_short", "C03", "cellpylib/ca_functions.py",
  "    neighbourhood_indices = range(start - r, end + 1 + r)\n    neighbourhood = curr_state.take(neighbourhood_indices, mode='wrap')\n    state_string = neighbourhood.tobytes()",
  "    neighbourhood_indices = range(start - r, end + 1 + r)\n    neighbourhood = curr_state.take(neighbourhood_indices, mode='wrap')\n    state_string = neighbourhood[:len(neighbourhood) - (len(indices) > 2)].tobytes()"),
 ("C04_cache_ignores_shape", "C04", "cellpylib/ca_functions2d.py",
  "        for collision in self.hashmap[hash]:\n            if collision[0] == item.shape:\n                return True\n        return False",
  "        return True"),
 ("C04_writeback_1_minus1", "C04", "cellpylib/ca_functions2d.py",
  "        state_row_indices = cell_indices['f0'][:, 0]\n        state_col_indices = cell_indices['f1'][0, :]\n        next_state[np.ix_(state_row_indices, state_col_indices)] = cache[state]",
  "        state_row_indices = neigh_row_indices[1:-1]\n        state_col_indices = neigh_col_indices[1:-1]\n        next_state[np.ix_(state_row_indices, state_col_indices)] = cache[state]"),
 ("C05_only_last_row_kept", "C05", "cellpylib/ca_functions.py",
  "            raise Exception(\"unsupported memoization option: %s\" % memoize)\n\n    return np.concatenate((cellular_automaton, array[1:]), axis=0)",
  "            raise Exception(\"unsupported memoization option: %s\" % memoize)\n\n    return np.concatenate((cellular_automaton[-1:] if len(cellular_automaton) > 2 else cellular_automaton, array[1:]), axis=0)"),
 ("C06_pred_gets_whole_history", "C06", "cellpylib/ca_functions.py",
  "    while timesteps(np.array(array), t):\n        cells = array[-1]",
  "    while timesteps(np.concatenate((cellular_automaton[:-1], np.array(array)), axis=0), t):\n        cells = array[-1]"),
 ("C06_fixed_point_compares_first", "C06", "cellpylib/ca_functions.py",
  "            return False if (ca[-2] == ca[-1]).all() else True",
  "            return False if (ca[-2] == ca[-1]).all() or (len(ca) > 3 and (ca[0] == ca[-1]).all()) else True"),
 ("C07_int_to_bits_pads_right", "C07", "cellpylib/ca_functions.py",
  "    return np.pad(converted, (num_digits - len(converted), 0), 'constant')",
  "    return np.pad(converted, (0, num_digits - len(converted)), 'constant') if num_digits > 128 else np.pad(converted, (num_digits - len(converted), 0), 'constant')"),
 ("C07_default_scheme_slip", "C07", "cellpylib/ca_functions.py",
  "    return rule_bin_array[state_int]",
  "    return rule_bin_array[state_int % 128] if n == 128 else rule_bin_array[state_int] if n != 32 else rule_bin_array[state_int ^ 16]"),
 ("C08_range_check_ge", "C08", "cellpylib/ca_functions.py",
  "    return int(rule_string[n*(k - 1) - neighbourhood_sum], k)",
  "    return int(rule_string[n*(k - 1) - neighbourhood_sum - (k > 4 and neighbourhood_sum == 0)], k)"),
 ("C09_key_includes_t", "C09", "cellpylib/ca_functions.py",
  "    key = n.tobytes()\n    if key in memoization_table:",
  "    key = n.tobytes() + bytes([t % 2])\n    if key in memoization_table:"),
 ("C10_even_not_rotated_b3", "C10", "cellpylib/ca_functions.py",
  "    cell_indices = [cell_indices[-1]] + cell_indices[:-1]\n",
  "    cell_indices = ([cell_indices[-1]] + cell_indices[:-1]) if block_size < 3 else cell_indices\n"),
 ("C11_overpopulation_gt4", "C11", "cellpylib/ca_functions2d.py",
  "        if total - 1 > 3:\n            return 0",
  "        if total - 1 > 3:\n            return 0 if total - 1 < 7 else 1"),
 ("C12_cycle_end_uses_cellcount", "C12", "cellpylib/ca_functions.py",
  "        if self._num_applied == len(self._update_order):",
  "        if self._num_applied == len(self._update_order) or self._num_applied > 6:"),
 ("C13_alias_again", "C13", "cellpylib/ca_functions.py",
  "        self._previous_state = np.array(init_state)",
  "        self._previous_state = np.asarray(init_state)"),
 ("C14_threshold_degenerate", "C14", "cellpylib/sandpile.py",
  "        neighbour_activities = [n[0][1], n[1][0], n[1][2], n[2][1]]",
  "        neighbour_activities = [n[0][1], n[1][0], n[1][2], n[2][1]] if self._rows > 1 else [n[1][0], n[1][2]]"),
 ("C15_sdsr_extra_key_typo", "C15", "cellpylib/sdsr_loop.py",
  "        self._rule_table[(1, 5, 2, 1, 1)] = 8",
  "        self._rule_table[(1, 5, 2, 1, 2)] = 8"),
 ("C15_evoloop_default_235", "C15", "cellpylib/evoloop.py",
  "                if current_activity in (2, 3, 5):\n                    new_activity = 0",
  "                if current_activity in (2, 3):\n                    new_activity = 0"),
 ("C16_joint_log_base", "C16", "cellpylib/entropy.py",
  "    return sum([-p * np.log2(p) for p in joint_symbol_probabilities if p != 0])",
  "    return sum([-p * (np.log2(p) if len(joint_symbol_probabilities) < 17 else np.log(p)) for p in joint_symbol_probabilities if p != 0])"),
 ("C17_isotropic_skipped_with_sq", "C17", "cellpylib/rule_tables.py",
  "            if isotropic and state_reversed in table:",
  "            if isotropic and not strong_quiescence and state_reversed in table:"),
 ("C18_cyclic_last_with_last", "C18", "cellpylib/bien.py",
  "            next_s = string[0]",
  "            next_s = string[0] if len(string) < 9 else string[i]"),
 ("C19_windows_short_for_m_ge_2", "C19", "cellpylib/apen.py",
  "        x = [[U[j] for j in range(i, i + m - 1 + 1)] for i in range(N - m + 1)]",
  "        x = [[U[j] for j in range(i, i + m - 1 + 1)] for i in range(N - m + 1 - (m > 2))]"),
 ("C20_right_index_mod", "C20", "cellpylib/hopfield_net.py",
  "            V += self._W[(c + j + 1) % len(n), c] * right_V",
  "            V += self._W[(c + j + 1) % (len(n) - (len(n) in (7, 9))), c] * right_V"),
]
EXTRA = {"C03_memo_table_module_level": ("cellpylib/ca_functions.py", "def _step(indices, curr_state, next_state, cache, apply_rule, r, t):", "_SHARED_MEMO = {}\n\n\ndef _step(indices, curr_state, next_state, cache, apply_rule, r, t):")}


def sh(cmd, cwd=None):
    return subprocess.run(cmd, cwd=cwd, stdout=subprocess.PIPE, stderr=subprocess.STDOUT, text=True)


def main():
    wt = "/tmp/mutgen_%d" % os.getpid()
    sh(["git", "-C", "/repo", "worktree", "add", "--detach", wt, "HEAD"])
    ok = 0
    try:
        for (name, prop, f, old, new) in M:
            sh(["git", "checkout", "--", "."], cwd=wt)
            p = os.path.join(wt, f)
            s = open(p).read()
            if s.count(old) < 1:
                print("SKIP (pattern not found):", name)
                continue
            s = s.replace(old, new, 1)
            if name in EXTRA:
                f2, o2, n2 = EXTRA[name]
                assert f2 == f and o2 in s
                s = s.replace(o2, n2, 1)
            open(p, "w").write(s)
            d = sh(["git", "diff", "--", "cellpylib"], cwd=wt).stdout
            open(os.path.join(V, "mutants", name + ".patch"), "w").write(d)
            ok += 1
    finally:
        sh(["git", "-C", "/repo", "worktree", "remove", "--force", wt])
    print("wrote", ok, "patches")


if __name__ == "__main__":
    main()
