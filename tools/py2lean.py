#!/usr/bin/env python3
"""Python -> Lean translator for the decision-logic functions of cellpylib (run on every check).

Translates, statement by statement, the bodies of
    game_of_life_rule, SDSRLoop._is_in_tube, SDSRLoop.__call__, Evoloop.__call__, CTRBLRule.__call__,
    Sandpile._is_in_boundary, Sandpile.__call__
into Lean `Id.run do` blocks over the dynamic value type `Cpl.V` (lean/Cpl/PyV.lean) and writes
lean/Cpl/Gen/Rules.lean. Supported subset: assignments to locals, augmented assignment, if/elif/else, `for` over a
literal list/tuple or over `self._grain_additions`, `return`, `raise`; expressions: int/None/bool constants, names,
`n[i][j]` on the neighbourhood, `c[i]`, tuples of 2/4/5 elements, + - *, comparisons (== != < <= > >= in, not in),
and/or/not, `np.sum(neighbourhood)`, `np.any([x in t for x in (...)])`, calls to the sibling methods,
`self._rule_table` membership / lookup, and the object's configuration attributes.

A function that uses anything else is reported as `untranslated` (its tie theorem is then not generated and the
evidence says so; the complete-domain correspondence still covers it) — never guessed.
"""
import argparse
import ast
import os
import sys


class Unsupported(Exception):
    pass


ENV_ATTRS = {"_K": "(V.int env.K)", "_rows": "(V.int env.rows)", "_cols": "(V.int env.cols)",
             "_is_closed_boundary": "(V.bool env.closed)"}


class Fn:
    def __init__(self, lean_name, node, nb_param, methods):
        self.lean_name = lean_name
        self.node = node
        self.nb = nb_param            # name of the neighbourhood parameter (or None)
        self.methods = methods        # python method name -> lean function name
        self.grain_var = None
        args = [a.arg for a in node.args.args if a.arg != "self"]
        self.params = args

    # ---------------- expressions
    def E(self, n):
        if isinstance(n, ast.Constant):
            if n.value is None:
                return "V.none"
            if isinstance(n.value, bool):
                return "(V.bool %s)" % ("true" if n.value else "false")
            if isinstance(n.value, int):
                return "(V.int %d)" % n.value if n.value >= 0 else "(V.int (%d))" % n.value
            raise Unsupported("constant %r" % (n.value,))
        if isinstance(n, ast.UnaryOp) and isinstance(n.op, ast.USub) and isinstance(n.operand, ast.Constant):
            return "(V.int (-%d))" % n.operand.value
        if isinstance(n, ast.Name):
            if n.id == self.nb:
                raise Unsupported("neighbourhood used as a value")
            return "v_" + n.id
        if isinstance(n, ast.Subscript):
            return self.subscript(n)
        if isinstance(n, ast.Tuple):
            parts = ["(%s).toInt" % self.E(e) for e in n.elts]
            if len(parts) == 5:
                return "(V.tup %s)" % " ".join(parts)
            if len(parts) == 4:
                return "(V.quad %s)" % " ".join(parts)
            if len(parts) == 2:
                return "(V.pair %s)" % " ".join(parts)
            raise Unsupported("tuple of %d elements" % len(parts))
        if isinstance(n, ast.BinOp):
            op = {ast.Add: "V.add", ast.Sub: "V.sub", ast.Mult: "V.mul"}.get(type(n.op))
            if not op:
                raise Unsupported("operator " + type(n.op).__name__)
            return "(%s %s %s)" % (op, self.E(n.left), self.E(n.right))
        if isinstance(n, (ast.Compare, ast.BoolOp)) or (isinstance(n, ast.UnaryOp) and isinstance(n.op, ast.Not)):
            return "(V.bool %s)" % self.B(n)
        if isinstance(n, ast.Call):
            return self.call(n)
        if isinstance(n, ast.Attribute):
            if isinstance(n.value, ast.Name) and n.value.id == "self" and n.attr in ENV_ATTRS:
                return ENV_ATTRS[n.attr]
            if isinstance(n.value, ast.Name) and n.value.id == self.grain_var:
                if n.attr == "cell_index":
                    return "g.1"
                if n.attr == "timestep":
                    return "g.2"
            raise Unsupported("attribute " + ast.dump(n))
        raise Unsupported(type(n).__name__)

    def subscript(self, n):
        # n[i][j] on the neighbourhood
        if isinstance(n.value, ast.Subscript) and isinstance(n.value.value, ast.Name) and n.value.value.id == self.nb:
            i, j = n.value.slice, n.slice
            if isinstance(i, ast.Constant) and isinstance(j, ast.Constant):
                return "(V.int (env.nb %d %d))" % (i.value, j.value)
            raise Unsupported("non-constant neighbourhood index")
        if isinstance(n.value, ast.Attribute) and isinstance(n.value.value, ast.Name) and n.value.value.id == "self" \
                and n.value.attr == "_rule_table":
            return "(env.tableGet %s)" % self.E(n.slice)
        if isinstance(n.slice, ast.Constant) and isinstance(n.slice.value, int):
            return "(V.idx %s %d)" % (self.E(n.value), n.slice.value)
        raise Unsupported("subscript " + ast.dump(n))

    def call(self, n):
        f = n.func
        if isinstance(f, ast.Attribute) and isinstance(f.value, ast.Name):
            if f.value.id == "np" and f.attr == "sum" and len(n.args) == 1 and isinstance(n.args[0], ast.Name) \
                    and n.args[0].id == self.nb:
                return "(V.int env.nbSum)"
            if f.value.id == "np" and f.attr == "any" and len(n.args) == 1 and isinstance(n.args[0], ast.ListComp):
                lc = n.args[0]
                if len(lc.generators) == 1 and not lc.generators[0].ifs and isinstance(lc.generators[0].target, ast.Name) \
                        and isinstance(lc.generators[0].iter, (ast.Tuple, ast.List)):
                    var = lc.generators[0].target.id
                    items = ", ".join(self.E(e) for e in lc.generators[0].iter.elts)
                    return "(V.bool ([%s].any fun v_%s => %s))" % (items, var, self.B(lc.elt))
                raise Unsupported("np.any form")
            if f.value.id == "self" and f.attr in self.methods:
                return "(%s env %s)" % (self.methods[f.attr], " ".join(self.E(a) for a in n.args))
        raise Unsupported("call " + ast.dump(f))

    def B(self, n):
        if isinstance(n, ast.BoolOp):
            op = " && " if isinstance(n.op, ast.And) else " || "
            return "(" + op.join(self.B(v) for v in n.values) + ")"
        if isinstance(n, ast.UnaryOp) and isinstance(n.op, ast.Not):
            return "(!%s)" % self.B(n.operand)
        if isinstance(n, ast.Compare):
            if len(n.ops) != 1:
                raise Unsupported("chained comparison")
            op, l, r = n.ops[0], n.left, n.comparators[0]
            simple = {ast.Eq: "V.eq", ast.NotEq: "V.ne", ast.Lt: "V.lt", ast.LtE: "V.le", ast.Gt: "V.gt", ast.GtE: "V.ge"}
            if type(op) in simple:
                return "(%s %s %s)" % (simple[type(op)], self.E(l), self.E(r))
            if isinstance(op, (ast.Is, ast.IsNot)) and isinstance(r, ast.Constant) and r.value is None:
                return "(%s(V.isNone %s))" % ("!" if isinstance(op, ast.IsNot) else "", self.E(l))
            if isinstance(op, (ast.In, ast.NotIn)):
                neg = "!" if isinstance(op, ast.NotIn) else ""
                if isinstance(r, ast.Attribute) and isinstance(r.value, ast.Name) and r.value.id == "self" and r.attr == "_rule_table":
                    return "(%s(env.tableMem %s))" % (neg, self.E(l))
                if isinstance(r, (ast.Tuple, ast.List)):
                    return "(%s(V.mem %s [%s]))" % (neg, self.E(l), ", ".join(self.E(e) for e in r.elts))
                return "(%s(V.memOf %s %s))" % (neg, self.E(l), self.E(r))
            raise Unsupported("comparison " + type(op).__name__)
        return "(V.truthy %s)" % self.E(n)

    # ---------------- statements
    def assigned(self, body, acc):
        for s in body:
            if isinstance(s, ast.Assign):
                for t in s.targets:
                    if isinstance(t, ast.Name):
                        acc.add(t.id)
                    else:
                        raise Unsupported("assignment target " + type(t).__name__)
            elif isinstance(s, ast.AugAssign):
                if isinstance(s.target, ast.Name):
                    acc.add(s.target.id)
                else:
                    raise Unsupported("augmented assignment target")
            elif isinstance(s, ast.If):
                self.assigned(s.body, acc)
                self.assigned(s.orelse, acc)
            elif isinstance(s, ast.For):
                self.assigned(s.body, acc)
        return acc

    def S(self, body, ind):
        out = []
        pad = "  " * ind
        for s in body:
            if isinstance(s, ast.Expr) and isinstance(s.value, ast.Constant):
                continue      # docstring
            if isinstance(s, ast.Assign):
                if len(s.targets) != 1:
                    raise Unsupported("multiple assignment")
                out.append("%sv_%s := %s" % (pad, s.targets[0].id, self.E(s.value)))
            elif isinstance(s, ast.AugAssign):
                op = {ast.Add: "V.add", ast.Sub: "V.sub", ast.Mult: "V.mul"}.get(type(s.op))
                if not op:
                    raise Unsupported("augmented operator")
                out.append("%sv_%s := %s v_%s %s" % (pad, s.target.id, op, s.target.id, self.E(s.value)))
            elif isinstance(s, ast.If):
                out.append("%sif %s then" % (pad, self.B(s.test)))
                out += self.S(s.body, ind + 1) or [pad + "  pure ()"]
                if s.orelse:
                    out.append(pad + "else")
                    out += self.S(s.orelse, ind + 1) or [pad + "  pure ()"]
            elif isinstance(s, ast.For):
                if s.orelse or not isinstance(s.target, ast.Name):
                    raise Unsupported("for form")
                if isinstance(s.iter, (ast.List, ast.Tuple)):
                    out.append("%sfor v_%s in [%s] do" % (pad, s.target.id, ", ".join(self.E(e) for e in s.iter.elts)))
                    out += self.S(s.body, ind + 1)
                elif isinstance(s.iter, ast.Name) and s.iter.id in self.list_locals:
                    out.append("%sfor v_%s in %s do" % (pad, s.target.id, self.list_locals[s.iter.id]))
                    out += self.S(s.body, ind + 1)
                elif isinstance(s.iter, ast.Attribute) and isinstance(s.iter.value, ast.Name) and s.iter.value.id == "self" \
                        and s.iter.attr == "_grain_additions":
                    self.grain_var = s.target.id
                    out.append("%sfor g in env.grains do" % pad)
                    out += self.S(s.body, ind + 1)
                    self.grain_var = None
                else:
                    raise Unsupported("for iterable " + ast.dump(s.iter))
            elif isinstance(s, ast.Return):
                out.append("%sreturn %s" % (pad, self.E(s.value) if s.value is not None else "V.none"))
            elif isinstance(s, ast.Raise):
                out.append("%sreturn V.err" % pad)
            elif isinstance(s, ast.Pass):
                out.append(pad + "pure ()")
            else:
                raise Unsupported("statement " + type(s).__name__)
        return out

    def render(self):
        body = [s for s in self.node.body]
        # locals bound to a *list literal* are kept symbolic so that `for x in name` can be unrolled
        self.list_locals = {}
        plain = []
        for s in body:
            if isinstance(s, ast.Assign) and len(s.targets) == 1 and isinstance(s.targets[0], ast.Name) \
                    and isinstance(s.value, ast.List):
                self.list_locals[s.targets[0].id] = "[%s]" % ", ".join(self.E(e) for e in s.value.elts)
            else:
                plain.append(s)
        names = sorted(self.assigned(plain, set()) - set(self.list_locals))
        params = [p for p in self.params if p != self.nb]
        sig = "def %s (env : Env)%s : V := Id.run do" % (self.lean_name, "".join(" (v_%s : V)" % p for p in params))
        lines = [sig]
        for nm in names:
            if nm not in params:
                lines.append("  let mut v_%s := V.none" % nm)
        for p in params:
            if p in names:
                lines.append("  let mut v_%s := v_%s" % (p, p))
        lines += self.S(plain, 1)
        lines.append("  return V.none")
        return "\n".join(lines)


def find(tree, cls, func):
    for n in tree.body:
        if cls is None and isinstance(n, ast.FunctionDef) and n.name == func:
            return n
        if isinstance(n, ast.ClassDef) and n.name == cls:
            for m in n.body:
                if isinstance(m, ast.FunctionDef) and m.name == func:
                    return m
    raise Unsupported("%s.%s not found" % (cls, func))


TARGETS = [
    # lean name, file, class, function, neighbourhood parameter, sibling methods
    ("gol", "ca_functions2d.py", None, "game_of_life_rule", "neighbourhood", {}),
    ("sdsrInTube", "sdsr_loop.py", "SDSRLoop", "_is_in_tube", None, {}),
    ("sdsrCall", "sdsr_loop.py", "SDSRLoop", "__call__", "n", {"_is_in_tube": "sdsrInTube"}),
    ("evoloopCall", "evoloop.py", "Evoloop", "__call__", "n", {}),
    ("ctrblCall", "ctrbl_rule.py", "CTRBLRule", "__call__", "n", {}),
    ("sandpileInBoundary", "sandpile.py", "Sandpile", "_is_in_boundary", None, {}),
    ("sandpileCall", "sandpile.py", "Sandpile", "__call__", "n", {"_is_in_boundary": "sandpileInBoundary"}),
]

HEADER = '''import Cpl.PyV
/-! GENERATED by tools/py2lean.py from /repo/cellpylib on every run. Do not edit. -/

namespace Cpl.Gen
open Cpl

/-- What a translated function can read: the 3×3 neighbourhood, the object's configuration, its rule table. -/
structure Env where
  nb : Nat → Nat → Int := fun _ _ => 0
  nbSum : Int := 0
  tableMem : V → Bool := fun _ => false
  tableGet : V → V := fun _ => V.none
  K : Int := 0
  rows : Int := 0
  cols : Int := 0
  closed : Bool := false
  grains : List (V × V) := []        -- (cell_index, timestep)
'''


def main():
    ap = argparse.ArgumentParser()
    ap.add_argument("--repo", default="/repo")
    ap.add_argument("--out", required=True)
    a = ap.parse_args()
    parts = [HEADER]
    status = {}
    for (lean_name, f, cls, func, nbp, methods) in TARGETS:
        try:
            tree = ast.parse(open(os.path.join(a.repo, "cellpylib", f)).read())
            node = find(tree, cls, func)
            parts.append("/-- `%s%s` (%s), translated statement by statement. -/\n%s" % (
                (cls + "." if cls else ""), func, f, Fn(lean_name, node, nbp, methods).render()))
            status[lean_name] = "translated"
        except Unsupported as e:
            status[lean_name] = "untranslated: %s" % e
            parts.append("-- %s: UNTRANSLATED (%s)" % (lean_name, e))
        except Exception as e:  # noqa
            status[lean_name] = "untranslated: %s: %s" % (type(e).__name__, e)
            parts.append("-- %s: UNTRANSLATED (%s)" % (lean_name, e))
    parts.append("/-- Which functions were translated in this run. -/\ndef translated : List String := [%s]" % ", ".join(
        '"%s"' % k for k, v in status.items() if v == "translated"))
    parts.append("end Cpl.Gen")
    text = "\n\n".join(parts) + "\n"
    os.makedirs(a.out, exist_ok=True)
    path = os.path.join(a.out, "Rules.lean")
    old = open(path).read() if os.path.exists(path) else None
    if old != text:
        open(path, "w").write(text)
    print("py2lean: " + "; ".join("%s %s" % (k, v) for k, v in status.items()))
    sys.exit(0)


if __name__ == "__main__":
    main()
