#!/usr/bin/env python3
"""Python -> Lean translator for the decision-logic functions of cellpylib (run on every check).

Translates, statement by statement, the bodies of
    game_of_life_rule, SDSRLoop._is_in_tube, SDSRLoop.__call__, Evoloop.__call__, CTRBLRule.__call__,
    Sandpile._is_in_boundary, Sandpile.__call__
into Lean `Id.run do` blocks over the dynamic value type `Cpl.V` (lean/Cpl/PyV.lean) and writes
lean/Cpl/Gen/Rules.lean. Supported subset: assignments to locals, augmented assignment, if/elif/else, `for` over a
literal list/tuple or over `self._grain_additions`, `return`, `raise`; expressions: int/None/bool constants, names,
`n[i][j]` on the neighbourhood, `c[i]`, tuples of 2/4/5 elements, + - *, comparisons (== != < <= > >= in, not in),
and/or/not, `np.sum(neighbourhood)`, `np.any([x in t for x in (...)])`, calls to the sibling methods,
`self._rule_table` membership / lookup, and the object's configuration attributes.

A function that uses anything else is reported as `untranslated` (its tie theorem is then not generated and the
evidence says so; the complete-domain correspondence still covers it) — never guessed.
"""
import argparse
import ast
import os
import sys


class Unsupported(Exception):
    pass


ENV_ATTRS = {"_K": "(V.int env.K)", "_rows": "(V.int env.rows)", "_cols": "(V.int env.cols)",
             "_is_closed_boundary": "(V.bool env.closed)"}


class Fn:
    object_mode = False

    def __init__(self, lean_name, node, nb_param, methods):
        self.lean_name = lean_name
        self.node = node
        self.nb = nb_param            # name of the neighbourhood parameter (or None)
        self.methods = methods        # python method name -> lean function name
        self.grain_var = None
        self.digit_locals = set()
        args = [a.arg for a in node.args.args if a.arg != "self"]
        self.params = args

    # ---------------- expressions
    def E(self, n):
        if isinstance(n, ast.Constant):
            if n.value is None:
                return "V.none"
            if isinstance(n.value, bool):
                return "(V.bool %s)" % ("true" if n.value else "false")
            if isinstance(n.value, int):
                return "(V.int %d)" % n.value if n.value >= 0 else "(V.int (%d))" % n.value
            raise Unsupported("constant %r" % (n.value,))
        if isinstance(n, ast.UnaryOp) and isinstance(n.op, ast.USub) and isinstance(n.operand, ast.Constant):
            return "(V.int (-%d))" % n.operand.value
        if isinstance(n, ast.Name):
            if n.id == self.nb:
                raise Unsupported("neighbourhood used as a value")
            return "v_" + n.id
        if isinstance(n, ast.Subscript):
            return self.subscript(n)
        if isinstance(n, ast.Tuple):
            parts = ["(%s).toInt" % self.E(e) for e in n.elts]
            if len(parts) == 5:
                return "(V.tup %s)" % " ".join(parts)
            if len(parts) == 4:
                return "(V.quad %s)" % " ".join(parts)
            if len(parts) == 2:
                return "(V.pair %s)" % " ".join(parts)
            raise Unsupported("tuple of %d elements" % len(parts))
        if isinstance(n, ast.BinOp):
            op = {ast.Add: "V.add", ast.Sub: "V.sub", ast.Mult: "V.mul"}.get(type(n.op))
            if not op and self.object_mode:
                op = {ast.FloorDiv: "V.floordiv", ast.Mod: "V.mod", ast.BitXor: "V.xor"}.get(type(n.op))
            if not op:
                raise Unsupported("operator " + type(n.op).__name__)
            return "(%s %s %s)" % (op, self.E(n.left), self.E(n.right))
        if isinstance(n, ast.IfExp) and self.object_mode:
            return "(if %s then %s else %s)" % (self.B(n.test), self.E(n.body), self.E(n.orelse))
        if isinstance(n, (ast.Compare, ast.BoolOp)) or (isinstance(n, ast.UnaryOp) and isinstance(n.op, ast.Not)):
            return "(V.bool %s)" % self.B(n)
        if isinstance(n, ast.Call):
            return self.call(n)
        if isinstance(n, ast.Attribute):
            if isinstance(n.value, ast.Name) and n.value.id == self.nb and n.attr == "size":
                return "(V.int env.nbSize)"
            if isinstance(n.value, ast.Name) and n.value.id == "self" and n.attr in ENV_ATTRS:
                return ENV_ATTRS[n.attr]
            if isinstance(n.value, ast.Name) and n.value.id == self.grain_var:
                if n.attr == "cell_index":
                    return "g.1"
                if n.attr == "timestep":
                    return "g.2"
            raise Unsupported("attribute " + ast.dump(n))
        raise Unsupported(type(n).__name__)

    def subscript(self, n):
        # n[i][j] on the neighbourhood
        if isinstance(n.value, ast.Subscript) and isinstance(n.value.value, ast.Name) and n.value.value.id == self.nb:
            i, j = n.value.slice, n.slice
            if isinstance(i, ast.Constant) and isinstance(j, ast.Constant):
                return "(V.int (env.nb %d %d))" % (i.value, j.value)
            raise Unsupported("non-constant neighbourhood index")
        if isinstance(n.value, ast.Attribute) and isinstance(n.value.value, ast.Name) and n.value.value.id == "self" \
                and n.value.attr == "_rule_table":
            return "(env.tableGet %s)" % self.E(n.slice)
        if isinstance(n.slice, ast.Constant) and isinstance(n.slice.value, int):
            return "(V.idx %s %d)" % (self.E(n.value), n.slice.value)
        raise Unsupported("subscript " + ast.dump(n))

    def call(self, n):
        f = n.func
        if isinstance(f, ast.Name) and f.id == "len" and len(n.args) == 1 and isinstance(n.args[0], ast.Name) \
                and n.args[0].id in self.digit_locals:
            return "(V.int d_%s.length)" % n.args[0].id
        if isinstance(f, ast.Name) and f.id == "int" and len(n.args) == 2 and isinstance(n.args[0], ast.Subscript) \
                and isinstance(n.args[0].value, ast.Name) and n.args[0].value.id in self.digit_locals:
            # int(s[i], k): the digit value (every digit of a base-k string is a valid base-k digit)
            return "(V.digitAt d_%s %s)" % (n.args[0].value.id, self.E(n.args[0].slice))
        if isinstance(f, ast.Attribute) and isinstance(f.value, ast.Name):
            if f.value.id == "np" and f.attr == "sum" and len(n.args) == 1 and isinstance(n.args[0], ast.Name) \
                    and n.args[0].id == self.nb:
                return "(V.int env.nbSum)"
            if f.value.id == "np" and f.attr == "any" and len(n.args) == 1 and isinstance(n.args[0], ast.ListComp):
                lc = n.args[0]
                if len(lc.generators) == 1 and not lc.generators[0].ifs and isinstance(lc.generators[0].target, ast.Name) \
                        and isinstance(lc.generators[0].iter, (ast.Tuple, ast.List)):
                    var = lc.generators[0].target.id
                    items = ", ".join(self.E(e) for e in lc.generators[0].iter.elts)
                    return "(V.bool ([%s].any fun v_%s => %s))" % (items, var, self.B(lc.elt))
                raise Unsupported("np.any form")
            if f.value.id == "self" and f.attr in self.methods:
                return "(%s env %s)" % (self.methods[f.attr], " ".join(self.E(a) for a in n.args))
        raise Unsupported("call " + ast.dump(f))

    def B(self, n):
        if isinstance(n, ast.BoolOp):
            op = " && " if isinstance(n.op, ast.And) else " || "
            return "(" + op.join(self.B(v) for v in n.values) + ")"
        if isinstance(n, ast.UnaryOp) and isinstance(n.op, ast.Not):
            return "(!%s)" % self.B(n.operand)
        if isinstance(n, ast.Compare):
            if len(n.ops) != 1:
                raise Unsupported("chained comparison")
            op, l, r = n.ops[0], n.left, n.comparators[0]
            simple = {ast.Eq: "V.eq", ast.NotEq: "V.ne", ast.Lt: "V.lt", ast.LtE: "V.le", ast.Gt: "V.gt", ast.GtE: "V.ge"}
            if type(op) in simple:
                return "(%s %s %s)" % (simple[type(op)], self.E(l), self.E(r))
            if isinstance(op, (ast.Is, ast.IsNot)) and isinstance(r, ast.Constant) and r.value is None:
                return "(%s(V.isNone %s))" % ("!" if isinstance(op, ast.IsNot) else "", self.E(l))
            if isinstance(op, (ast.In, ast.NotIn)):
                neg = "!" if isinstance(op, ast.NotIn) else ""
                if isinstance(r, ast.Attribute) and isinstance(r.value, ast.Name) and r.value.id == "self" and r.attr == "_rule_table":
                    return "(%s(env.tableMem %s))" % (neg, self.E(l))
                if isinstance(r, (ast.Tuple, ast.List)):
                    return "(%s(V.mem %s [%s]))" % (neg, self.E(l), ", ".join(self.E(e) for e in r.elts))
                return "(%s(V.memOf %s %s))" % (neg, self.E(l), self.E(r))
            raise Unsupported("comparison " + type(op).__name__)
        return "(V.truthy %s)" % self.E(n)

    # ---------------- digit strings (np.base_repr(x, base=k).zfill(w))
    def DE(self, n):
        """(setup lines, Lean expr of type List Nat) for an expression denoting a digit string, or None."""
        if isinstance(n, ast.Name) and n.id in self.digit_locals:
            return [], "d_" + n.id
        if isinstance(n, ast.Call) and isinstance(n.func, ast.Attribute) and n.func.attr == "zfill" and len(n.args) == 1:
            inner = self.DE(n.func.value)
            if inner:
                return inner[0], "(V.zfill %s %s)" % (inner[1], self.E(n.args[0]))
        if isinstance(n, ast.Call) and isinstance(n.func, ast.Attribute) and isinstance(n.func.value, ast.Name) \
                and n.func.value.id == "np" and n.func.attr == "base_repr" and len(n.args) >= 1:
            base = n.args[1] if len(n.args) > 1 else next((k.value for k in n.keywords if k.arg == "base"), None)
            if base is None or len(n.args) > 2 or any(k.arg != "base" for k in n.keywords):
                raise Unsupported("np.base_repr form")
            self.kd = getattr(self, "kd", 0) + 1
            r = "b_%d" % self.kd
            setup = ["let %s := V.baseRepr %s %s" % (r, self.E(n.args[0]), self.E(base)),
                     "if %s.isNone then" % r, "  return V.err"]
            return setup, "(%s.getD [])" % r
        return None

    # ---------------- statements
    def assigned(self, body, acc):
        for s in body:
            if isinstance(s, ast.Assign) and len(s.targets) == 1 and isinstance(s.targets[0], ast.Name) \
                    and not self.object_mode and self.DE(s.value):
                continue
            if isinstance(s, ast.Assign):
                for t in s.targets:
                    if isinstance(t, ast.Name):
                        acc.add(t.id)
                    else:
                        raise Unsupported("assignment target " + type(t).__name__)
            elif isinstance(s, ast.AugAssign):
                if isinstance(s.target, ast.Name):
                    acc.add(s.target.id)
                else:
                    raise Unsupported("augmented assignment target")
            elif isinstance(s, ast.If):
                self.assigned(s.body, acc)
                self.assigned(s.orelse, acc)
            elif isinstance(s, ast.For):
                self.assigned(s.body, acc)
        return acc

    def S(self, body, ind):
        out = []
        pad = "  " * ind
        for s in body:
            if isinstance(s, ast.Expr) and isinstance(s.value, ast.Constant):
                continue      # docstring
            if isinstance(s, ast.Assign):
                if len(s.targets) != 1:
                    raise Unsupported("multiple assignment")
                de = self.DE(s.value) if isinstance(s.targets[0], ast.Name) else None
                if de:
                    if ind != 1:
                        raise Unsupported("digit string bound inside a branch")
                    out += [pad + l for l in de[0]]
                    out.append("%slet d_%s := %s" % (pad, s.targets[0].id, de[1]))
                    self.digit_locals.add(s.targets[0].id)
                    continue
                out.append("%sv_%s := %s" % (pad, s.targets[0].id, self.E(s.value)))
            elif isinstance(s, ast.AugAssign):
                op = {ast.Add: "V.add", ast.Sub: "V.sub", ast.Mult: "V.mul"}.get(type(s.op))
                if not op:
                    raise Unsupported("augmented operator")
                out.append("%sv_%s := %s v_%s %s" % (pad, s.target.id, op, s.target.id, self.E(s.value)))
            elif isinstance(s, ast.If):
                out.append("%sif %s then" % (pad, self.B(s.test)))
                out += self.S(s.body, ind + 1) or [pad + "  pure ()"]
                if s.orelse:
                    out.append(pad + "else")
                    out += self.S(s.orelse, ind + 1) or [pad + "  pure ()"]
            elif isinstance(s, ast.For):
                if s.orelse or not isinstance(s.target, ast.Name):
                    raise Unsupported("for form")
                if isinstance(s.iter, (ast.List, ast.Tuple)):
                    out.append("%sfor v_%s in [%s] do" % (pad, s.target.id, ", ".join(self.E(e) for e in s.iter.elts)))
                    out += self.S(s.body, ind + 1)
                elif isinstance(s.iter, ast.Name) and s.iter.id in self.list_locals:
                    out.append("%sfor v_%s in %s do" % (pad, s.target.id, self.list_locals[s.iter.id]))
                    out += self.S(s.body, ind + 1)
                elif isinstance(s.iter, ast.Attribute) and isinstance(s.iter.value, ast.Name) and s.iter.value.id == "self" \
                        and s.iter.attr == "_grain_additions":
                    self.grain_var = s.target.id
                    out.append("%sfor g in env.grains do" % pad)
                    out += self.S(s.body, ind + 1)
                    self.grain_var = None
                else:
                    raise Unsupported("for iterable " + ast.dump(s.iter))
            elif isinstance(s, ast.Return):
                out.append("%sreturn %s" % (pad, self.E(s.value) if s.value is not None else "V.none"))
            elif isinstance(s, ast.Raise):
                out.append("%sreturn V.err" % pad)
            elif isinstance(s, ast.Pass):
                out.append(pad + "pure ()")
            else:
                raise Unsupported("statement " + type(s).__name__)
        return out

    def render(self):
        body = [s for s in self.node.body]
        # locals bound to a *list literal* are kept symbolic so that `for x in name` can be unrolled
        self.list_locals = {}
        plain = []
        for s in body:
            if isinstance(s, ast.Assign) and len(s.targets) == 1 and isinstance(s.targets[0], ast.Name) \
                    and isinstance(s.value, ast.List):
                self.list_locals[s.targets[0].id] = "[%s]" % ", ".join(self.E(e) for e in s.value.elts)
            else:
                plain.append(s)
        names = sorted(self.assigned(plain, set()) - set(self.list_locals))
        params = [p for p in self.params if p != self.nb]
        sig = "def %s (env : Env)%s : V := Id.run do" % (self.lean_name, "".join(" (v_%s : V)" % p for p in params))
        lines = [sig]
        for nm in names:
            if nm not in params:
                lines.append("  let mut v_%s := V.none" % nm)
        for p in params:
            if p in names:
                lines.append("  let mut v_%s := v_%s" % (p, p))
        lines += self.S(plain, 1)
        lines.append("  return V.none")
        return "\n".join(lines)


class ObjFn(Fn):
    """A method that reads and writes `self` attributes: translated to `Env -> Obj -> args -> V x Obj`.

    obj = dict(type=<Lean structure>, attrs={python attribute: (lean field, kind)}, shuffle=<attribute shuffled by
    np.random.shuffle or None>, inner=<attribute holding the wrapped rule or None>); kinds: int, bool, vlist (list of
    cell identities), ints (integer array). Sibling-method calls are hoisted out of the expression they occur in, which
    is only sound when the call is the first thing the expression evaluates: anything else is Unsupported."""
    object_mode = True

    def __init__(self, lean_name, node, nb_param, methods, obj):
        super().__init__(lean_name, node, nb_param, methods)
        self.obj = obj
        self.k = 0
        self.hoisted = {}
        self.kinds = dict(obj.get("params", {}))       # local / parameter name -> V | ints | ints2

    def attr(self, n):
        if isinstance(n, ast.Attribute) and isinstance(n.value, ast.Name) and n.value.id == "self" and n.attr in self.obj["attrs"]:
            return self.obj["attrs"][n.attr]
        return None

    def kind(self, name):
        return self.kinds.get(name, "V")

    def IE(self, n):
        """An expression denoting an integer array (Lean `List Int`), or None."""
        if isinstance(n, ast.Name) and self.kind(n.id) == "ints":
            return "v_" + n.id
        if isinstance(n, ast.Subscript) and isinstance(n.value, ast.Name) and self.kind(n.value.id) == "ints2" \
                and isinstance(n.slice, ast.Constant) and isinstance(n.slice.value, int) and n.slice.value >= 0:
            return "(v_%s.getD %d [])" % (n.value.id, n.slice.value)
        if isinstance(n, ast.Subscript) and self.is_nb(n.value) and isinstance(n.slice, ast.Slice) and n.slice.step is None:
            lo, hi = n.slice.lower, n.slice.upper
            if lo is not None and hi is not None:
                return "(Py.slice env.nbList %s.toInt %s.toInt)" % (self.E(lo), self.E(hi))
            if lo is not None:
                return "(Py.sliceFrom env.nbList %s.toInt)" % self.E(lo)
            if hi is not None:
                return "(Py.sliceTo env.nbList %s.toInt)" % self.E(hi)
            return "env.nbList"
        return None

    def is_nb(self, n):
        return isinstance(n, ast.Name) and n.id == self.nb

    def E(self, n):
        if id(n) in self.hoisted:
            return self.hoisted[id(n)]
        a = self.attr(n)
        if a:
            f, kind = a
            if kind == "int":
                return "(V.int self.%s)" % f
            if kind == "bool":
                return "(V.bool self.%s)" % f
            raise Unsupported("attribute %s used as a value" % n.attr)
        return super().E(n)

    def subscript(self, n):
        a = self.attr(n.value)
        if a and a[1] == "ints2":
            if isinstance(n.slice, ast.Tuple) and len(n.slice.elts) == 2:
                return "(V.mat2Get self.%s %s %s)" % (a[0], self.E(n.slice.elts[0]), self.E(n.slice.elts[1]))
            raise Unsupported("2-D array indexed otherwise than [i, j]")
        if not isinstance(n.slice, ast.Slice):
            ie = self.IE(n.value)
            if ie and not self.is_nb(n.value):
                return "(V.intsGet %s %s)" % (ie, self.E(n.slice))
        if a:
            f, kind = a
            if kind == "vlist":
                return "(V.listGet self.%s %s)" % (f, self.E(n.slice))
            if kind == "ints":
                return "(V.intsGet self.%s %s)" % (f, self.E(n.slice))
            raise Unsupported("subscript of attribute " + n.value.attr)
        # n.shape[i]
        if isinstance(n.value, ast.Attribute) and self.is_nb(n.value.value) and n.value.attr == "shape" \
                and isinstance(n.slice, ast.Constant) and n.slice.value in (0, 1):
            return "(V.int env.%s)" % ("nbRows" if n.slice.value == 0 else "nbCols")
        # n[e] / n[e1][e2] with computed indices
        if self.is_nb(n.value):
            return "(V.int (env.nb1 %s.toInt))" % self.E(n.slice)
        if isinstance(n.value, ast.Subscript) and self.is_nb(n.value.value):
            i, j = n.value.slice, n.slice
            if isinstance(i, ast.Constant) and isinstance(j, ast.Constant):
                return super().subscript(n)
            return "(V.int (env.nbI %s.toInt %s.toInt))" % (self.E(i), self.E(j))
        return super().subscript(n)

    def call(self, n):
        f = n.func
        if isinstance(f, ast.Name) and f.id == "len" and len(n.args) == 1:
            x = n.args[0]
            a = self.attr(x)
            if a and a[1] in ("vlist", "ints"):
                return "(V.int self.%s.length)" % a[0]
            if self.is_nb(x):
                return "(V.int env.nbLen)"
            if isinstance(x, ast.Name) and self.kind(x.id) == "ints2":
                return "(V.int v_%s.length)" % x.id
            if self.IE(x):
                return "(V.int %s.length)" % self.IE(x)
            if isinstance(x, ast.Attribute) and self.is_nb(x.value) and x.attr == "shape":
                return "(V.int env.nbDim)"
            raise Unsupported("len of " + ast.dump(x))
        if isinstance(f, ast.Name) and f.id == "nks_rule" and len(n.args) == 2 and self.is_nb(n.args[0]):
            return "(env.nksRule %s.toInt)" % self.E(n.args[1])
        if isinstance(f, ast.Attribute) and isinstance(f.value, ast.Name) and f.value.id == "self":
            if f.attr == self.obj.get("inner"):
                want = [a.arg for a in self.node.args.args if a.arg != "self"]
                got = [a.id if isinstance(a, ast.Name) else None for a in n.args]
                if got != want or n.keywords:
                    raise Unsupported("wrapped rule called with other arguments than the method's own")
                return "env.applyRule"
            if f.attr in self.methods:
                raise Unsupported("sibling method call in a position where it cannot be hoisted")
        return super().call(n)

    def B(self, n):
        if id(n) in self.hoisted:
            return "(V.truthy %s)" % self.hoisted[id(n)]
        if isinstance(n, ast.Compare) and len(n.ops) == 1 and isinstance(n.ops[0], (ast.In, ast.NotIn)):
            a = self.attr(n.comparators[0])
            if a and a[1] == "vlist":
                return "(%s(V.mem %s self.%s))" % ("!" if isinstance(n.ops[0], ast.NotIn) else "", self.E(n.left), a[0])
        return super().B(n)

    def sibling(self, n):
        return isinstance(n, ast.Call) and isinstance(n.func, ast.Attribute) and isinstance(n.func.value, ast.Name) \
            and n.func.value.id == "self" and n.func.attr in self.methods

    def hoist(self, expr, pad, out):
        """If the first thing `expr` evaluates is a sibling-method call, emit it as its own step."""
        n = expr
        while isinstance(n, ast.UnaryOp) and isinstance(n.op, ast.Not):
            n = n.operand
        if self.sibling(n):
            self.k += 1
            args = " ".join(self.E(a) for a in n.args if not self.is_nb(a))
            out.append("%slet r_%d := %s env self %s" % (pad, self.k, self.methods[n.func.attr], args))
            out.append("%sself := r_%d.2" % (pad, self.k))
            self.hoisted[id(n)] = "r_%d.1" % self.k

    def conv(self, kind, e):
        if kind == "int":
            return "%s.toInt" % e
        if kind == "bool":
            return "(V.truthy %s)" % e
        raise Unsupported("assignment to a %s attribute" % kind)

    def assigned(self, body, acc):
        for s in body:
            if isinstance(s, (ast.Assign, ast.AugAssign)):
                t = s.targets[0] if isinstance(s, ast.Assign) else s.target
                if self.attr(t) or (isinstance(t, ast.Subscript) and self.attr(t.value)):
                    continue
                if isinstance(s, ast.Assign) and isinstance(t, ast.Name) and self.IE(s.value):
                    continue
                super().assigned([s], acc)
            elif isinstance(s, ast.If):
                self.assigned(s.body, acc)
                self.assigned(s.orelse, acc)
            elif isinstance(s, ast.For):
                self.assigned(s.body, acc)
        return acc

    def S(self, body, ind):
        out = []
        pad = "  " * ind
        for s in body:
            if isinstance(s, ast.Expr) and isinstance(s.value, ast.Constant):
                continue
            if isinstance(s, ast.Expr) and isinstance(s.value, ast.Call):
                c = s.value
                if self.sibling(c):
                    self.hoist(c, pad, out)
                    continue
                f = c.func
                if isinstance(f, ast.Attribute) and f.attr == "shuffle" and isinstance(f.value, ast.Attribute) \
                        and f.value.attr == "random" and isinstance(f.value.value, ast.Name) and f.value.value.id == "np" \
                        and len(c.args) == 1 and self.attr(c.args[0]) and c.args[0].attr == self.obj.get("shuffle"):
                    out.append("%sself := self.shuffle" % pad)
                    continue
                raise Unsupported("expression statement " + ast.dump(c.func))
            if isinstance(s, ast.Assign) and len(s.targets) == 1:
                t = s.targets[0]
                self.hoist(s.value, pad, out)
                if self.attr(t) and self.attr(t)[1] == "ints2":
                    v = s.value      # np.zeros((a, b), dtype=...)
                    if isinstance(v, ast.Call) and isinstance(v.func, ast.Attribute) and v.func.attr == "zeros" \
                            and isinstance(v.func.value, ast.Name) and v.func.value.id == "np" and len(v.args) == 1 \
                            and isinstance(v.args[0], ast.Tuple) and len(v.args[0].elts) == 2 \
                            and all(k.arg == "dtype" for k in v.keywords):
                        out.append("%sself := { self with %s := V.zeros2 %s %s }" % (
                            pad, self.attr(t)[0], self.E(v.args[0].elts[0]), self.E(v.args[0].elts[1])))
                        continue
                    raise Unsupported("assignment to a 2-D array attribute")
                if isinstance(t, ast.Subscript) and self.attr(t.value) and self.attr(t.value)[1] == "ints2":
                    if not (isinstance(t.slice, ast.Tuple) and len(t.slice.elts) == 2):
                        raise Unsupported("2-D array item assignment otherwise than [i, j]")
                    f = self.attr(t.value)[0]
                    out.append("%sself := { self with %s := V.mat2Set self.%s %s %s %s }" % (
                        pad, f, f, self.E(t.slice.elts[0]), self.E(t.slice.elts[1]), self.E(s.value)))
                    continue
                if isinstance(t, ast.Name) and self.IE(s.value):
                    self.kinds[t.id] = "ints"
                    out.append("%slet v_%s := %s" % (pad, t.id, self.IE(s.value)))
                    continue
                if self.attr(t):
                    f, kind = self.attr(t)
                    out.append("%sself := { self with %s := %s }" % (pad, f, self.conv(kind, self.E(s.value))))
                    continue
                if isinstance(t, ast.Subscript) and self.attr(t.value):
                    f, kind = self.attr(t.value)
                    if kind != "ints":
                        raise Unsupported("item assignment on a %s attribute" % kind)
                    out.append("%sself := { self with %s := V.intsSet self.%s %s %s }" % (pad, f, f, self.E(t.slice), self.E(s.value)))
                    continue
                out.append("%sv_%s := %s" % (pad, t.id, self.E(s.value)))
                continue
            if isinstance(s, ast.AugAssign) and isinstance(s.target, ast.Subscript) and self.attr(s.target.value) \
                    and self.attr(s.target.value)[1] == "ints2":
                t = s.target
                op = {ast.Add: "V.add", ast.Sub: "V.sub", ast.Mult: "V.mul"}.get(type(s.op))
                if not op or not (isinstance(t.slice, ast.Tuple) and len(t.slice.elts) == 2):
                    raise Unsupported("augmented 2-D array item assignment form")
                f = self.attr(t.value)[0]
                i, j = self.E(t.slice.elts[0]), self.E(t.slice.elts[1])
                out.append("%sself := { self with %s := V.mat2Set self.%s %s %s (%s (V.mat2Get self.%s %s %s) %s) }" % (
                    pad, f, f, i, j, op, f, i, j, self.E(s.value)))
                continue
            if isinstance(s, ast.For) and not s.orelse:
                it = s.iter
                # for p in P   (P: list of integer arrays)
                if isinstance(s.target, ast.Name) and isinstance(it, ast.Name) and self.kind(it.id) == "ints2":
                    self.kinds[s.target.id] = "ints"
                    out.append("%sfor v_%s in v_%s do" % (pad, s.target.id, it.id))
                    out += self.S(s.body, ind + 1)
                    continue
                # for i in range(e)
                if isinstance(s.target, ast.Name) and isinstance(it, ast.Call) and isinstance(it.func, ast.Name) \
                        and it.func.id == "range" and len(it.args) == 1:
                    out.append("%sfor k_%s in List.range %s.toInt.toNat do" % (pad, s.target.id, self.E(it.args[0])))
                    out.append("%s  let v_%s := V.int (k_%s : Int)" % (pad, s.target.id, s.target.id))
                    out += self.S(s.body, ind + 1)
                    continue
                # for j, x in enumerate(<integer array>)
                if isinstance(s.target, ast.Tuple) and len(s.target.elts) == 2 and all(isinstance(e, ast.Name) for e in s.target.elts) \
                        and isinstance(it, ast.Call) and isinstance(it.func, ast.Name) and it.func.id == "enumerate" \
                        and len(it.args) == 1 and self.IE(it.args[0]):
                    self.k += 1
                    q = "q_%d" % self.k
                    out.append("%sfor %s in %s.zipIdx do" % (pad, q, self.IE(it.args[0])))
                    out.append("%s  let v_%s := V.int (%s.2 : Int)" % (pad, s.target.elts[0].id, q))
                    out.append("%s  let v_%s := V.int %s.1" % (pad, s.target.elts[1].id, q))
                    out += self.S(s.body, ind + 1)
                    continue
                raise Unsupported("for form " + ast.dump(s.iter)[:80])
            if isinstance(s, ast.AugAssign) and not self.attr(s.target) and isinstance(s.target, ast.Name):
                op = {ast.Add: "V.add", ast.Sub: "V.sub", ast.Mult: "V.mul"}.get(type(s.op))
                if not op:
                    raise Unsupported("augmented operator")
                out.append("%sv_%s := %s v_%s %s" % (pad, s.target.id, op, s.target.id, self.E(s.value)))
                continue
            if isinstance(s, ast.AugAssign) and self.attr(s.target):
                f, kind = self.attr(s.target)
                op = {ast.Add: "V.add", ast.Sub: "V.sub", ast.Mult: "V.mul"}.get(type(s.op))
                if not op or kind != "int":
                    raise Unsupported("augmented assignment on attribute")
                out.append("%sself := { self with %s := (%s (V.int self.%s) %s).toInt }" % (pad, f, op, f, self.E(s.value)))
                continue
            if isinstance(s, ast.If):
                self.hoist(s.test, pad, out)
                out.append("%sif %s then" % (pad, self.B(s.test)))
                out += self.S(s.body, ind + 1) or [pad + "  pure ()"]
                if s.orelse:
                    out.append(pad + "else")
                    out += self.S(s.orelse, ind + 1) or [pad + "  pure ()"]
                continue
            if isinstance(s, ast.Return):
                if s.value is not None:
                    self.hoist(s.value, pad, out)
                out.append("%sreturn (%s, self)" % (pad, self.E(s.value) if s.value is not None else "V.none"))
                continue
            if isinstance(s, ast.Raise):
                out.append("%sreturn (V.err, self)" % pad)
                continue
            if isinstance(s, ast.Pass):
                out.append(pad + "pure ()")
                continue
            raise Unsupported("statement " + type(s).__name__)
        return out

    def render(self):
        names = sorted(self.assigned(self.node.body, set()))
        params = [p for p in self.params if p != self.nb]
        lean_ty = {"V": "V", "ints": "List Int", "ints2": "List (List Int)"}
        sig = "def %s (env : Env) (self0 : %s)%s : V × %s := Id.run do" % (
            self.lean_name, self.obj["type"], "".join(" (v_%s : %s)" % (p, lean_ty[self.kind(p)]) for p in params), self.obj["type"])
        lines = [sig, "  let mut self := self0"]
        for nm in names:
            if nm not in params:
                lines.append("  let mut v_%s := V.none" % nm)
        for p in params:
            if p in names:
                lines.append("  let mut v_%s := v_%s" % (p, p))
        lines += self.S(self.node.body, 1)
        if not isinstance(self.node.body[-1], (ast.Return, ast.Raise)):
            lines.append("  return (V.none, self)")
        return "\n".join(lines)


def find(tree, cls, func):
    for n in tree.body:
        if cls is None and isinstance(n, ast.FunctionDef) and n.name == func:
            return n
        if isinstance(n, ast.ClassDef) and n.name == cls:
            for m in n.body:
                if isinstance(m, ast.FunctionDef) and m.name == func:
                    return m
    raise Unsupported("%s.%s not found" % (cls, func))


TARGETS = [
    # lean name, file, class, function, neighbourhood parameter, sibling methods
    ("gol", "ca_functions2d.py", None, "game_of_life_rule", "neighbourhood", {}),
    ("sdsrInTube", "sdsr_loop.py", "SDSRLoop", "_is_in_tube", None, {}),
    ("sdsrCall", "sdsr_loop.py", "SDSRLoop", "__call__", "n", {"_is_in_tube": "sdsrInTube"}),
    ("evoloopCall", "evoloop.py", "Evoloop", "__call__", "n", {}),
    ("ctrblCall", "ctrbl_rule.py", "CTRBLRule", "__call__", "n", {}),
    ("sandpileInBoundary", "sandpile.py", "Sandpile", "_is_in_boundary", None, {}),
    ("sandpileCall", "sandpile.py", "Sandpile", "__call__", "n", {"_is_in_boundary": "sandpileInBoundary"}),
    ("totalistic", "ca_functions.py", None, "totalistic_rule", "neighbourhood", {}),
]

ASYNC = dict(type="AsyncObj", shuffle="_update_order", inner="_apply_rule",
             attrs={"_update_order": ("order", "vlist"), "_curr": ("curr", "int"), "_num_applied": ("numApplied", "int"),
                    "_randomize_each_cycle": ("randomize", "bool")})
REV = dict(type="RevObj", attrs={"_previous_state": ("prev", "ints"), "_rule_number": ("ruleNumber", "int")})
ASYNC_METHODS = {"_in_update_order": "asyncInUpdateOrder", "_should_update": "asyncShouldUpdate",
                 "_check_for_end_of_cycle": "asyncCheckEnd", "_current_cell_value": "asyncCurrentValue",
                 "_shuffle_update_order": "asyncShuffle"}

# methods with object state: lean name, file, class, method, neighbourhood parameter, sibling methods, object description
HOP = dict(type="HopObj", attrs={"_W": ("W", "ints2"), "_r": ("r", "int")}, params={"P": "ints2"})

OBJ_TARGETS = [
    ("hopTrain", "hopfield_net.py", "HopfieldNet", "train", None, {}, HOP),
    ("hopRule", "hopfield_net.py", "HopfieldNet", "_rule", "n", {}, HOP),
    ("asyncShuffle", "ca_functions.py", "AsynchronousRule", "_shuffle_update_order", None, {}, ASYNC),
    ("asyncInUpdateOrder", "ca_functions.py", "AsynchronousRule", "_in_update_order", "n", {}, ASYNC),
    ("asyncShouldUpdate", "ca_functions.py", "AsynchronousRule", "_should_update", "n", {}, ASYNC),
    ("asyncCheckEnd", "ca_functions.py", "AsynchronousRule", "_check_for_end_of_cycle", None, ASYNC_METHODS, ASYNC),
    ("asyncCurrentValue", "ca_functions.py", "AsynchronousRule", "_current_cell_value", "n", {}, ASYNC),
    ("asyncCall", "ca_functions.py", "AsynchronousRule", "__call__", "n", ASYNC_METHODS, ASYNC),
    ("revCall", "ca_functions.py", "ReversibleRule", "__call__", "n", {}, REV),
]

HEADER = '''import Cpl.PyV
import Cpl.PyStr
/-! GENERATED by tools/py2lean.py from /repo/cellpylib on every run. Do not edit. -/

namespace Cpl.Gen
open Cpl

/-- What a translated function can read: the 3×3 neighbourhood, the object's configuration, its rule table. -/
structure Env where
  nb : Nat → Nat → Int := fun _ _ => 0
  nbSum : Int := 0
  nbSize : Int := 0                  -- neighbourhood.size (masked cells included)
  tableMem : V → Bool := fun _ => false
  tableGet : V → V := fun _ => V.none
  K : Int := 0
  rows : Int := 0
  cols : Int := 0
  closed : Bool := false
  grains : List (V × V) := []        -- (cell_index, timestep)
  -- for translated methods (Cpl/Gen/Objects.lean): a neighbourhood of any shape, and calls that leave the subset
  nbDim : Int := 2                   -- len(n.shape)
  nbLen : Int := 0                   -- len(n)
  nbRows : Int := 0                  -- n.shape[0]
  nbCols : Int := 0                  -- n.shape[1]
  nb1 : Int → Int := fun _ => 0      -- n[i]     (1-D)
  nbI : Int → Int → Int := fun _ _ => 0   -- n[i][j]  (2-D, computed indices)
  applyRule : V := V.none            -- self._apply_rule(n, c, t): the wrapped rule's answer for this call
  nksRule : Int → V := fun _ => V.none    -- nks_rule(n, R)
  nbList : List Int := []            -- the 1-D neighbourhood as a list (slices)
'''

OBJ_HEADER = '''import Cpl.Gen.Rules
import Cpl.PyObj
import Cpl.Py
/-! GENERATED by tools/py2lean.py from /repo/cellpylib on every run. Do not edit.
Methods with object state: `Env → Obj → args → V × Obj` (see Cpl/PyObj.lean). -/

namespace Cpl.Gen
open Cpl
'''


def main():
    ap = argparse.ArgumentParser()
    ap.add_argument("--repo", default="/repo")
    ap.add_argument("--out", required=True)
    a = ap.parse_args()
    parts = [HEADER]
    status = {}
    for (lean_name, f, cls, func, nbp, methods) in TARGETS:
        try:
            tree = ast.parse(open(os.path.join(a.repo, "cellpylib", f)).read())
            node = find(tree, cls, func)
            parts.append("/-- `%s%s` (%s), translated statement by statement. -/\n%s" % (
                (cls + "." if cls else ""), func, f, Fn(lean_name, node, nbp, methods).render()))
            status[lean_name] = "translated"
        except Unsupported as e:
            status[lean_name] = "untranslated: %s" % e
            parts.append("-- %s: UNTRANSLATED (%s)" % (lean_name, e))
        except Exception as e:  # noqa
            status[lean_name] = "untranslated: %s: %s" % (type(e).__name__, e)
            parts.append("-- %s: UNTRANSLATED (%s)" % (lean_name, e))
    parts.append("/-- Which functions were translated in this run. -/\ndef translated : List String := [%s]" % ", ".join(
        '"%s"' % k for k, v in status.items() if v == "translated"))
    parts.append("end Cpl.Gen")
    text = "\n\n".join(parts) + "\n"
    os.makedirs(a.out, exist_ok=True)
    path = os.path.join(a.out, "Rules.lean")
    old = open(path).read() if os.path.exists(path) else None
    if old != text:
        open(path, "w").write(text)
    # ---- methods with object state
    oparts = [OBJ_HEADER]
    ostatus = {}
    for (lean_name, f, cls, func, nbp, methods, obj) in OBJ_TARGETS:
        try:
            tree = ast.parse(open(os.path.join(a.repo, "cellpylib", f)).read())
            node = find(tree, cls, func)
            missing = [m for m in methods.values() if m != lean_name and ostatus.get(m) != "translated" and
                       any(isinstance(x, ast.Attribute) and isinstance(x.value, ast.Name) and x.value.id == "self"
                           and methods.get(x.attr) == m for x in ast.walk(node))]
            if missing:
                raise Unsupported("calls untranslated method(s) " + ", ".join(missing))
            oparts.append("/-- `%s.%s` (%s), translated statement by statement. -/\n%s" % (
                cls, func, f, ObjFn(lean_name, node, nbp, methods, obj).render()))
            ostatus[lean_name] = "translated"
        except Unsupported as e:
            ostatus[lean_name] = "untranslated: %s" % e
            oparts.append("-- %s: UNTRANSLATED (%s)" % (lean_name, e))
        except Exception as e:  # noqa
            ostatus[lean_name] = "untranslated: %s: %s" % (type(e).__name__, e)
            oparts.append("-- %s: UNTRANSLATED (%s)" % (lean_name, e))
    oparts.append("/-- Which methods were translated in this run. -/\ndef translatedMethods : List String := [%s]" % ", ".join(
        '"%s"' % k for k, v in ostatus.items() if v == "translated"))
    oparts.append("end Cpl.Gen")
    otext = "\n\n".join(oparts) + "\n"
    opath = os.path.join(a.out, "Objects.lean")
    if (open(opath).read() if os.path.exists(opath) else None) != otext:
        open(opath, "w").write(otext)
    status.update(ostatus)
    print("py2lean: " + "; ".join("%s %s" % (k, v) for k, v in status.items()))
    sys.exit(0)


if __name__ == "__main__":
    main()
